"""dev helper (never run by a check): turn the replay files of a property into known_findings entries.
usage: scripts_findings.py C01 '<what-template>'   -- entries are reviewed by hand before committing."""
import json, glob, sys, re
prop = sys.argv[1]
kf = json.load(open('/verif/known_findings.json'))
have = {(f['property'], f['key']) for f in kf['findings']}
new = []
for f in sorted(glob.glob(f'/verif/replays/{prop}-*.json')):
    r = json.load(open(f))
    if (prop, r['key']) in have: continue
    what = r['what']
    what = re.sub(r'np\.(float64|int64|float32)\(([^)]*)\)', r'\2', what)
    e = {"property": prop, "status": "known", "key": r['key'], "what": what[:300]}
    if r.get('cases') is not None: e['cases'] = r['cases']
    new.append(e)
kf['findings'] += new
json.dump(kf, open('/verif/known_findings.json', 'w'), indent=1)
print('added', len(new))
