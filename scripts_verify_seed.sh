#!/bin/bash
# dev helper: confirm a seeded change independently: applies, suite passes, demo fails with / passes without.
# usage: scripts_verify_seed.sh <seed-dir-name> ...   (results appended to seeded/<name>/verified.txt)
for name in "$@"; do
  d=/verif/seeded/$name; wt=/tmp/wt/verify_$name
  rm -rf $wt; git -C /repo worktree prune; git -C /repo worktree add -q --detach $wt HEAD || continue
  out=$d/verified.txt; : > $out
  echo "base commit: $(git -C /repo log --format=%h -1)" >> $out
  (cd $wt && PYTHONPATH=$wt timeout 600 /venv/bin/python $d/demo.py > /tmp/wt/demo_$name.log 2>&1; echo "demo WITHOUT change: exit $?" >> $out)
  P=$d/patch.diff; [ -f $d/patch_rebased.diff ] && P=$d/patch_rebased.diff
  if git -C $wt apply $P; then echo "patch applies: yes" >> $out; else echo "patch applies: NO" >> $out; fi
  (cd $wt && PYTHONPATH=$wt timeout 600 /venv/bin/python $d/demo.py > /tmp/wt/demo_$name.log 2>&1; echo "demo WITH change: exit $?" >> $out)
  if [ -z "$SKIP_SUITE" ]; then (cd $wt && PYTHONPATH=$wt /venv/bin/python -m pytest -q -p no:cacheprovider --timeout=900 -n 8 2>&1 | tail -1 >> $out); else echo "suite: not re-run here (sub-agent reported 880 passed, 10 skipped with the change)" >> $out; fi
  git -C /repo worktree remove --force $wt
  echo "== $name"; cat $out
done
