"""dev helper: run checks against a seeded change. usage: scripts_seed.py <patch.diff> CHECK [CHECK...]"""
import subprocess, sys, json
patch = sys.argv[1]; checks = sys.argv[2:]
r = subprocess.run(['git', '-C', '/repo', 'apply', patch], capture_output=True, text=True)
if r.returncode: print('APPLY FAILED', r.stderr); sys.exit(2)
try:
    for c in checks:
        r = subprocess.run(['/verif/check', c, '--tier', 'quick'], capture_output=True, text=True)
        v = [l for l in r.stdout.splitlines() if l.startswith('VIOLATION')]
        d = [l for l in r.stdout.splitlines() if l.startswith('  detail')]
        print(f'== {c}: exit {r.returncode}, {len(v)} VIOLATION lines'); print('\n'.join(d[:3])); print(r.stdout.splitlines()[-1][:300] if r.stdout else r.stderr[-300:])
finally:
    subprocess.run(['git', '-C', '/repo', 'checkout', '--', '.'])
    print(subprocess.run(['git', '-C', '/repo', 'status', '--short'], capture_output=True, text=True).stdout)
