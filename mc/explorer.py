"""Choice-tree explorer: the sequential form of a stateless model checker.

A *body* is a function ``body(ch)`` that asks ``ch.pick(label, options)`` for every
nondeterministic decision (program, input pattern, config value, environment
answer, fault position ...).  ``explore`` enumerates every choice vector by
prefix replay: run with a prefix, take option 0 at every later point, then branch
into each alternative of each later point.

Two disciplines:
  * full product  (bound=None): every option of every point;
  * deviation-bounded (bound=d): option 0 is the default answer, any other option
    costs 1, everything with total cost <= d is explored.

Replaying a prefix that runs out of range, or whose labels differ from the run
that produced it, is a hard error (DivergenceError): the body is not
deterministic and nothing it reports may be trusted.
"""
from __future__ import annotations

import hashlib
import json
from dataclasses import dataclass, field
from typing import Any, Callable, Iterator, List, Optional, Sequence, Tuple


class DivergenceError(RuntimeError):
    pass


@dataclass
class Point:
    label: str
    n: int
    chosen: int


class Chooser:
    """Records / replays the choices of one execution."""

    def __init__(self, prefix: Sequence[int] = (), expect_labels: Sequence[str] = ()):
        self.prefix = list(prefix)
        self.expect_labels = list(expect_labels)
        self.points: List[Point] = []

    def pick(self, label: str, options: Sequence[Any]) -> Any:
        n = len(options)
        if n == 0:
            raise ValueError(f"choice point {label!r} has no options")
        i = len(self.points)
        if i < len(self.prefix):
            c = self.prefix[i]
            if c >= n:
                raise DivergenceError(
                    f"replay diverged at point {i} ({label}): choice {c} of {n}"
                )
            if i < len(self.expect_labels) and self.expect_labels[i] != label:
                raise DivergenceError(
                    f"replay diverged at point {i}: label {label!r} != {self.expect_labels[i]!r}"
                )
        else:
            c = 0
        self.points.append(Point(label, n, c))
        return options[c]

    def pick_index(self, label: str, n: int) -> int:
        return self.pick(label, list(range(n)))

    @property
    def vector(self) -> List[int]:
        return [p.chosen for p in self.points]

    @property
    def labels(self) -> List[str]:
        return [p.label for p in self.points]

    def cost(self) -> int:
        return sum(1 for p in self.points if p.chosen != 0)


@dataclass
class Execution:
    vector: List[int]
    labels: List[str]
    result: Any
    deviations: int


@dataclass
class ExploreStats:
    executions: int = 0
    transitions: int = 0  # choice edges taken for the first time (tree edges)
    max_depth: int = 0
    bound: Optional[int] = None
    capped: bool = False
    _edges: set = field(default_factory=set)

    def note(self, ch: Chooser) -> None:
        self.executions += 1
        self.max_depth = max(self.max_depth, len(ch.points))
        vec = ch.vector
        for i in range(len(vec)):
            e = tuple(vec[: i + 1])
            if e not in self._edges:
                self._edges.add(e)
                self.transitions += 1


def explore(
    body: Callable[[Chooser], Any],
    *,
    bound: Optional[int] = None,
    max_executions: Optional[int] = None,
    stats: Optional[ExploreStats] = None,
    start_prefix: Sequence[int] = (),
) -> Iterator[Execution]:
    """Depth-first enumeration of all choice vectors of ``body`` that extend
    ``start_prefix`` (the subtree under that prefix)."""
    st = stats if stats is not None else ExploreStats()
    st.bound = bound
    stack: List[Tuple[List[int], List[str]]] = [(list(start_prefix), [])]
    while stack:
        prefix, labels = stack.pop()
        if max_executions is not None and st.executions >= max_executions:
            st.capped = True
            return
        ch = Chooser(prefix, labels)
        result = body(ch)
        if len(ch.points) < len(prefix):
            raise DivergenceError(
                f"replay ended after {len(ch.points)} points, prefix has {len(prefix)}"
            )
        st.note(ch)
        yield Execution(ch.vector, ch.labels, result, ch.cost())
        # branch at every point after the prefix (reverse so DFS order is natural)
        new: List[Tuple[List[int], List[str]]] = []
        for i in range(len(prefix), len(ch.points)):
            p = ch.points[i]
            base_cost = sum(1 for q in ch.points[:i] if q.chosen != 0)
            if bound is not None and base_cost + 1 > bound:
                continue
            for alt in range(1, p.n):
                new.append((ch.vector[:i] + [alt], ch.labels[: i + 1]))
        stack.extend(reversed(new))


def enumerate_product(body: Callable[[Chooser], Any], **kw) -> List[Execution]:
    return list(explore(body, **kw))


def digest(obj: Any) -> str:
    """Canonical SHA-256 of a JSON-able object or bytes."""
    if isinstance(obj, (bytes, bytearray)):
        return hashlib.sha256(bytes(obj)).hexdigest()
    return hashlib.sha256(
        json.dumps(obj, sort_keys=True, default=repr).encode()
    ).hexdigest()


class StateGraph:
    """Explicit-state bookkeeping: distinct canonical states and labelled edges."""

    def __init__(self) -> None:
        self.states: set = set()
        self.edges: set = set()

    def add_state(self, key: str) -> bool:
        if key in self.states:
            return False
        self.states.add(key)
        return True

    def add_edge(self, src: str, label: str, dst: str) -> None:
        self.states.add(src)
        self.states.add(dst)
        self.edges.add((src, label, dst))

    def merge(self, other: "StateGraph") -> None:
        self.states |= other.states
        self.edges |= other.edges


class _Cut(Exception):
    pass


def split_prefixes(body: Callable[[Chooser], Any], depth: int) -> List[List[int]]:
    """All choice prefixes of length ``depth`` (shorter where the body ends earlier):
    the frontier that partitions the tree into independent subtrees for workers."""

    class _CutChooser(Chooser):
        def pick(self, label, options):  # type: ignore[override]
            if len(self.points) >= depth:
                raise _Cut()
            return super().pick(label, options)

    out: List[List[int]] = []
    stack: List[List[int]] = [[]]
    while stack:
        prefix = stack.pop()
        ch = _CutChooser(prefix)
        try:
            body(ch)
        except _Cut:
            pass
        out.append(ch.vector)
        new = []
        for i in range(len(prefix), len(ch.points)):
            for alt in range(1, ch.points[i].n):
                new.append(ch.vector[:i] + [alt])
        stack.extend(reversed(new))
    return out
