"""C19 layer 3: call forms harvested from the working tree itself.

Every registered testcase is run eagerly ONCE with recording wrappers around the original library functions that
the converter substitutes while tracing (module-level function targets of the binding specs).  For every recorded
call f(a0, a1, ..., k=v) the semantically identical call forms are generated (all-keyword, all-positional, every
positional/keyword split); each is evaluated eagerly (must equal the recorded form, otherwise JAX itself
distinguishes them and the form is dropped) and exported as the single-call program `lambda x: f(x, ...)`.
Tracing must bind every form and produce the same values."""
from __future__ import annotations

import inspect
from typing import Any, Callable, Dict, List, Optional, Tuple

import numpy as np


def _is_arraylike(v: Any) -> bool:
    try:
        import jax
        if isinstance(v, jax.Array):
            return True
    except Exception:
        pass
    return isinstance(v, np.ndarray)


def _simple(v: Any, depth: int = 0) -> bool:
    if v is None or isinstance(v, (bool, int, float, str, np.generic)):
        return True
    if isinstance(v, (np.dtype, type)):
        return True
    if _is_arraylike(v):
        return np.asarray(v).size <= 4096
    if isinstance(v, (tuple, list)) and depth < 2:
        return all(_simple(x, depth + 1) for x in v)
    return False


def _freeze(v: Any) -> Any:
    if _is_arraylike(v):
        return np.asarray(v)
    if isinstance(v, (tuple, list)):
        return type(v)(_freeze(x) for x in v)
    return v


def function_targets() -> List[Tuple[Any, str, Callable]]:
    """(module object, attribute, original function) for module-level function substitutes."""
    import types
    import jax2onnx.plugins.plugin_system as ps
    from jax2onnx.plugins import _patching
    ps.import_all_plugins()
    out = []
    seen = set()
    for plugin in ps.PLUGIN_REGISTRY.values():
        bs = getattr(plugin.__class__, "binding_specs", None)
        if bs is None:
            continue
        try:
            specs = bs()
        except Exception:
            continue
        for s in specs:
            if not isinstance(s, _patching.MonkeyPatchSpec):
                continue
            try:
                tgt = _patching._resolve(s.target)
            except Exception:
                continue
            if not isinstance(tgt, types.ModuleType):
                continue
            orig = getattr(tgt, s.attr, None)
            if orig is None or not callable(orig) or (id(tgt), s.attr) in seen:
                continue
            seen.add((id(tgt), s.attr))
            out.append((tgt, s.attr, orig))
    return out


def harvest(max_programs: Optional[int] = None, stripe: int = 0, n_stripes: int = 1) -> List[Dict[str, Any]]:
    """Run corpus testcases eagerly under recorders; one recorded call per (function, call signature shape)."""
    import jax
    import jax.numpy as jnp
    from mc import corpus, lattice
    targets = function_targets()
    recorded: Dict[Tuple[str, str], Dict[str, Any]] = {}
    active = {"on": False}

    def make_rec(tgt, attr, orig):
        def rec(*a, **k):
            if active["on"] and a and _is_arraylike(a[0]) and all(_simple(x) for x in a) and all(_simple(x) for x in k.values()):
                sig = f"{len(a)}|{','.join(sorted(k))}"
                key = (f"{tgt.__name__}.{attr}", sig)
                if key not in recorded:
                    recorded[key] = {"module": tgt.__name__, "attr": attr, "args": [_freeze(x) for x in a],
                                     "kwargs": {kk: _freeze(vv) for kk, vv in k.items()}}
            return orig(*a, **k)
        try:
            rec.__wrapped__ = orig
            rec.__name__ = getattr(orig, "__name__", attr)
        except Exception:
            pass
        return rec

    saved = []
    for tgt, attr, orig in targets:
        saved.append((tgt, attr, orig))
        setattr(tgt, attr, make_rec(tgt, attr, orig))
    try:
        n = 0
        per_component: Dict[str, int] = {}
        selected = []
        for tp in corpus.params():
            pid = tp["pid"]
            if corpus.is_heavy(pid) or corpus.double(tp) or "_dynamic" in pid.split("/")[-1]:
                continue
            if not (pid.startswith("primitives.") or pid.startswith("verif.gen")):
                continue
            comp = "/".join(pid.split("/")[:2])
            if any(t in comp for t in ("while_loop", "fori_loop", "/scan", "/cond", "remat", "custom_")):
                continue  # data-dependent loops may not terminate on lattice inputs; they are not call-form targets
            per_component[comp] = per_component.get(comp, 0) + 1
            if per_component[comp] > 4 and not pid.startswith("verif.gen"):
                continue
            selected.append(tp)
        for idx, tp in enumerate(selected):
            if idx % n_stripes != stripe:
                continue
            pid = tp["pid"]
            try:
                fn = corpus.instantiate(tp)
                _s, meta, _v = corpus.input_meta(tp)
                arrays = []
                for k, (sh, dt) in enumerate(meta):
                    kind = np.dtype(dt).kind
                    vals = (lattice.FLOAT_PATTERNS["mixed_small"] if kind in "fc" else
                            lattice.INT_PATTERNS["small_nonneg"] if kind in "iu" else lattice.BOOL_PATTERNS["alternating"])
                    arrays.append(lattice.fill(corpus.bind_shape(sh, {s: 2 for s in corpus.symbols(meta)}), vals, dt, offset=k))
                active["on"] = True
                fn(*[jnp.asarray(a) for a in arrays], **(tp.get("input_params") or {}))
            except Exception:
                pass
            finally:
                active["on"] = False
            n += 1
            if max_programs and n >= max_programs:
                break
    finally:
        for tgt, attr, orig in saved:
            setattr(tgt, attr, orig)
    return [dict(v, key=f"{k[0]}[{k[1]}]") for k, v in sorted(recorded.items())]


def forms(call: Dict[str, Any], orig: Callable) -> List[Tuple[str, List[Any], Dict[str, Any]]]:
    """Semantically identical call forms of one recorded call (first argument always positional)."""
    try:
        sig = inspect.signature(orig)
    except (TypeError, ValueError):
        return []
    try:
        ba = sig.bind(*call["args"], **call["kwargs"])
    except TypeError:
        return []
    params = list(sig.parameters.values())
    if any(p.kind == p.VAR_POSITIONAL for p in params) and len(call["args"]) > sum(
            1 for p in params if p.kind in (p.POSITIONAL_ONLY, p.POSITIONAL_OR_KEYWORD)):
        return []
    named = [(p, ba.arguments[p.name]) for p in params if p.name in ba.arguments and p.kind not in (p.VAR_POSITIONAL, p.VAR_KEYWORD)]
    extra_kw = dict(ba.arguments.get(next((p.name for p in params if p.kind == p.VAR_KEYWORD), "__none__"), {}) or {})
    out: List[Tuple[str, List[Any], Dict[str, Any]]] = []
    n = len(named)
    for k in range(1, n + 1):  # first k positional, rest keyword
        a, kw, ok = [], dict(extra_kw), True
        for idx, (p, v) in enumerate(named):
            if idx < k:
                if p.kind == p.KEYWORD_ONLY:
                    ok = False
                    break
                a.append(v)
            else:
                if p.kind == p.POSITIONAL_ONLY:
                    ok = False
                    break
                kw[p.name] = v
        if ok:
            out.append((f"first {k} positional, rest keyword", a, kw))
    # de-duplicate the recorded form itself
    uniq, seen = [], set()
    for name, a, kw in out:
        key = (len(a), tuple(sorted(kw)))
        if key in seen:
            continue
        seen.add(key)
        uniq.append((name, a, kw))
    return uniq
