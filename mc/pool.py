"""Long-lived worker pool (spawn), robust against worker crashes and hangs.

Jobs are ``(module, function, payload)``; the function is imported inside the
worker and called with the payload; the result (any picklable) comes back.
A worker that dies (segfault inside a native library) or exceeds the per-job
timeout is restarted and the job is reported as ``{"_worker": "died"|"timeout"}``
so that the caller can decide (harness diagnostics are never violations).
"""
from __future__ import annotations

import importlib
import multiprocessing as mp
import os
import sys
import time
import traceback
from multiprocessing.connection import wait
from typing import Any, Callable, Dict, Iterable, Iterator, List, Optional, Tuple

_CTX = mp.get_context("spawn")


def _worker_main(conn, env: Dict[str, str], init: Optional[Tuple[str, str]], core: Optional[int] = None):
    os.environ.update(env)
    if core is not None:
        try:  # one core per worker: native thread pools size themselves to the visible cores
            os.sched_setaffinity(0, {core})
        except Exception:
            pass
    sys.path.insert(0, os.path.dirname(os.path.dirname(os.path.abspath(__file__))))
    try:
        if init is not None:
            getattr(importlib.import_module(init[0]), init[1])()
    except BaseException:
        conn.send(("init_error", traceback.format_exc()))
        return
    conn.send(("ready", None))
    cache: Dict[Tuple[str, str], Callable] = {}
    while True:
        try:
            msg = conn.recv()
        except EOFError:
            return
        if msg is None:
            return
        jid, mod, fn, payload = msg
        try:
            f = cache.get((mod, fn))
            if f is None:
                f = getattr(importlib.import_module(mod), fn)
                cache[(mod, fn)] = f
            res = f(payload)
            conn.send((jid, "ok", res))
        except BaseException as e:  # noqa: BLE001 - report everything to the root
            try:
                conn.send((jid, "exc", {"type": type(e).__name__, "msg": str(e)[:2000],
                                        "tb": traceback.format_exc()[-4000:]}))
            except Exception:
                conn.send((jid, "exc", {"type": type(e).__name__, "msg": "unsendable", "tb": ""}))


class _W:
    def __init__(self, env, init, core=None):
        self.env, self.init, self.core = env, init, core
        self.start()

    def start(self):
        self.parent, child = _CTX.Pipe()
        self.proc = _CTX.Process(target=_worker_main, args=(child, self.env, self.init, self.core), daemon=True)
        self.proc.start()
        child.close()
        self.ready = False
        self.job = None
        self.t0 = 0.0
        self.limit = 1e9

    def kill(self):
        try:
            self.proc.kill()
            self.proc.join(5)
        except Exception:
            pass
        try:
            self.parent.close()
        except Exception:
            pass


class Pool:
    def __init__(self, n: Optional[int] = None, *, env: Optional[Dict[str, str]] = None,
                 init: Optional[Tuple[str, str]] = None, job_timeout: float = 300.0, pin: bool = True,
                 core_offset: int = 0):
        self.pin = pin
        self.core_offset = core_offset
        self.n = n or min(16, os.cpu_count() or 4)
        base_env = {"PYTHONHASHSEED": os.environ.get("PYTHONHASHSEED", "0"),
                    "JAX_PLATFORMS": "cpu", "XLA_FLAGS": os.environ.get("XLA_FLAGS", ""),
                    "OMP_NUM_THREADS": "1", "OPENBLAS_NUM_THREADS": "1", "MKL_NUM_THREADS": "1",
                    "TF_CPP_MIN_LOG_LEVEL": "3"}
        base_env.update(env or {})
        self.env, self.init, self.job_timeout = base_env, init, job_timeout
        self.workers: List[_W] = []
        self.restarts = 0

    def __enter__(self):
        old = os.environ.get("PYTHONHASHSEED")
        os.environ["PYTHONHASHSEED"] = self.env["PYTHONHASHSEED"]
        try:
            cores = sorted(os.sched_getaffinity(0)) if hasattr(os, "sched_getaffinity") else []
            self.workers = [_W(self.env, self.init, cores[(i + self.core_offset) % len(cores)] if self.pin and cores else None)
                            for i in range(self.n)]
        finally:
            if old is None:
                os.environ.pop("PYTHONHASHSEED", None)
            else:
                os.environ["PYTHONHASHSEED"] = old
        return self

    def __exit__(self, *a):
        # workers are stateless: no graceful shutdown needed (interpreter teardown with JAX loaded takes seconds)
        for w in self.workers:
            w.kill()
        self.workers = []

    def _restart(self, w: _W):
        w.kill()
        old = os.environ.get("PYTHONHASHSEED")
        os.environ["PYTHONHASHSEED"] = self.env["PYTHONHASHSEED"]
        try:
            w.start()
        finally:
            if old is None:
                os.environ.pop("PYTHONHASHSEED", None)
            else:
                os.environ["PYTHONHASHSEED"] = old
        self.restarts += 1

    def imap(self, mod: str, fn: str, payloads: Iterable[Any], *,
             timeout: Optional[float] = None) -> Iterator[Tuple[int, Any, Any]]:
        """Yield ``(index, payload, result)`` in completion order."""
        timeout = timeout or self.job_timeout
        source = payloads if isinstance(payloads, QueueSource) else None
        it = enumerate(payloads) if source is None else None
        counter = 0
        pending = 0
        exhausted = False
        init_fail = 0

        def feed(w: _W) -> bool:
            nonlocal exhausted, pending, counter
            if exhausted:
                return False
            if not w.proc.is_alive():
                # an idle worker that exited on its own (a job may ask for a fresh process): replace it first
                self._restart(w)
                return False
            if source is not None:
                st, item = source.poll()
                if st == "wait":
                    return False
                if st == "done":
                    exhausted = True
                    return False
                idx, p = counter, item
                counter += 1
            else:
                try:
                    idx, p = next(it)
                except StopIteration:
                    exhausted = True
                    return False
            w.job = (idx, p)
            w.t0 = time.time()
            w.limit = (p.get("_timeout") if isinstance(p, dict) else None) or timeout
            w.parent.send((idx, mod, fn, p))
            pending += 1
            return True

        for w in self.workers:
            if w.ready and w.job is None:
                feed(w)
        while True:
            if exhausted and pending == 0 and all(w.ready or not w.proc.is_alive() for w in self.workers):
                break
            if exhausted and pending == 0:
                break
            conns = [w.parent for w in self.workers]
            idle = source is not None and not exhausted and any(w.ready and w.job is None for w in self.workers)
            ready = wait(conns, timeout=0.05 if idle else 1.0)
            now = time.time()
            for w in self.workers:
                if w.parent in ready:
                    try:
                        msg = w.parent.recv()
                    except (EOFError, OSError):
                        msg = ("dead",)
                    if msg[0] == "ready":
                        w.ready = True
                        feed(w)
                        continue
                    if msg[0] == "init_error":
                        init_fail += 1
                        if init_fail > 3 * self.n:
                            raise RuntimeError("worker init failed: " + str(msg[1]))
                        self._restart(w)
                        continue
                    if msg[0] == "dead":
                        job = w.job
                        self._restart(w)
                        if job is not None:
                            pending -= 1
                            yield job[0], job[1], {"_worker": "died"}
                        continue
                    jid, status, res = msg
                    job = w.job
                    w.job = None
                    pending -= 1
                    retire = status == "ok" and isinstance(res, dict) and res.pop("_retire", False)
                    if retire:
                        # the job declared its process used up (dirty / must be fresh): replace it before reuse
                        self._restart(w)
                    if status == "ok":
                        yield jid, job[1], res
                    else:
                        yield jid, job[1], {"_worker": "exception", **res}
                    if not retire:
                        feed(w)
                elif w.job is not None and now - w.t0 > w.limit:
                    job = w.job
                    self._restart(w)
                    pending -= 1
                    yield job[0], job[1], {"_worker": "timeout"}
                elif w.job is None and w.ready and not exhausted:
                    feed(w)
                elif w.job is None and w.ready and not w.proc.is_alive():
                    self._restart(w)
                elif not w.proc.is_alive() and w.job is None and not w.ready:
                    self._restart(w)

    def map(self, mod: str, fn: str, payloads: List[Any], **kw) -> List[Any]:
        out: List[Any] = [None] * len(payloads)
        for i, _p, r in self.imap(mod, fn, payloads, **kw):
            out[i] = r
        return out


class QueueSource:
    """Non-blocking job source fed by another thread (two-stage pipelines)."""

    def __init__(self) -> None:
        import queue
        self.q: "queue.Queue[Any]" = queue.Queue()
        self.closed = False

    def put(self, item: Any) -> None:
        self.q.put(item)

    def close(self) -> None:
        self.closed = True

    def poll(self):
        import queue
        try:
            return "item", self.q.get_nowait()
        except queue.Empty:
            return ("done", None) if self.closed and self.q.empty() else ("wait", None)


def is_worker_failure(res: Any) -> bool:
    return isinstance(res, dict) and "_worker" in res
