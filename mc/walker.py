"""Independent structural walker over ModelProto (SSA / scoping / functions / schemas / element types)."""
from __future__ import annotations

from typing import Any, Dict, Iterator, List, Optional, Set, Tuple

import onnx
from onnx import AttributeProto, defs


def subgraphs(node) -> Iterator[Tuple[str, Any]]:
    for a in node.attribute:
        if a.type == AttributeProto.GRAPH:
            yield a.name, a.g
        elif a.type == AttributeProto.GRAPHS:
            for k, g in enumerate(a.graphs):
                yield f"{a.name}[{k}]", g


def walk_scopes(model: onnx.ModelProto) -> List[str]:
    """Every value name defined exactly once per scope chain, defined before use, captures resolve to an
    enclosing scope, graph outputs defined.  Returns a list of problems (empty = ok)."""
    problems: List[str] = []

    def visit(g, outer: Set[str], path: str) -> None:
        defined: Set[str] = set()
        inputs = [i.name for i in g.input]
        inits = [i.name for i in g.initializer] + [i.name for i in g.sparse_initializer]
        for n in inputs:
            if n in defined:
                problems.append(f"{path}: graph input {n!r} listed twice")
            if n in outer:
                problems.append(f"{path}: graph input {n!r} shadows an outer-scope value")
            defined.add(n)
        seen_init: Set[str] = set()
        for n in inits:
            if n in seen_init:
                problems.append(f"{path}: initializer {n!r} defined twice")
            seen_init.add(n)
            if n in outer:
                problems.append(f"{path}: initializer {n!r} shadows an outer-scope value")
            defined.add(n)
        for idx, node in enumerate(g.node):
            for nm in node.input:
                if nm and nm not in defined and nm not in outer:
                    problems.append(f"{path}/node[{idx}]({node.op_type}): input {nm!r} used before definition / undefined")
            for sub_name, sg in subgraphs(node):
                visit(sg, outer | defined, f"{path}/node[{idx}]({node.op_type}).{sub_name}")
            for nm in node.output:
                if not nm:
                    continue
                if nm in defined:
                    problems.append(f"{path}/node[{idx}]({node.op_type}): output {nm!r} defined twice in scope")
                elif nm in outer:
                    problems.append(f"{path}/node[{idx}]({node.op_type}): output {nm!r} shadows an outer-scope value")
                defined.add(nm)
        seen_out: Set[str] = set()
        for o in g.output:
            if o.name not in defined and o.name not in outer:
                problems.append(f"{path}: graph output {o.name!r} is not defined")
            seen_out.add(o.name)

    visit(model.graph, set(), "graph")
    return problems


def walk_functions(model: onnx.ModelProto) -> List[str]:
    """Function bodies closed, every call node resolves to a definition with matching arity in an imported domain."""
    problems: List[str] = []
    imported = {o.domain for o in model.opset_import}
    funcs: Dict[Tuple[str, str, str], Any] = {}
    for f in model.functions:
        key = (f.domain, f.name, getattr(f, "overload", ""))
        if key in funcs:
            problems.append(f"function {key} defined twice")
        funcs[key] = f
        if f.domain not in imported:
            problems.append(f"function domain {f.domain!r} of {f.name!r} is not imported by the model")
        f_imported = {o.domain for o in f.opset_import}
        defined: Set[str] = set(f.input)
        if len(set(f.input)) != len(f.input):
            problems.append(f"function {f.name}: duplicate input names")

        def visit_nodes(nodes, defined: Set[str], path: str) -> None:
            for idx, node in enumerate(nodes):
                for nm in node.input:
                    if nm and nm not in defined:
                        problems.append(f"function {f.name}{path}/node[{idx}]({node.op_type}): input {nm!r} is not "
                                        f"a function input or earlier value (body not closed)")
                if node.domain not in f_imported and not (node.domain == "" and "" in f_imported):
                    problems.append(f"function {f.name}{path}/node[{idx}]: domain {node.domain!r} not imported by the function")
                for sub_name, sg in subgraphs(node):
                    inner = set(defined) | {i.name for i in sg.input} | {i.name for i in sg.initializer}
                    visit_nodes(sg.node, inner, f"{path}/node[{idx}].{sub_name}")
                for nm in node.output:
                    if nm and nm in defined:
                        problems.append(f"function {f.name}{path}/node[{idx}]({node.op_type}): output {nm!r} defined twice")
                    if nm:
                        defined.add(nm)

        visit_nodes(f.node, defined, "")
        for o in f.output:
            if o not in defined:
                problems.append(f"function {f.name}: output {o!r} is not produced in the body")

    def all_nodes(g) -> Iterator[Any]:
        for n in g.node:
            yield n
            for _nm, sg in subgraphs(n):
                yield from all_nodes(sg)

    def check_call(node, where: str) -> None:
        cands = [k for k in funcs if k[0] == node.domain and k[1] == node.op_type]
        if not cands:
            if node.domain not in ("", "ai.onnx", "ai.onnx.ml", "com.microsoft") :
                problems.append(f"{where}: call to {node.domain}::{node.op_type} has no function definition")
            return
        ov = getattr(node, "overload", "")
        key = (node.domain, node.op_type, ov)
        f = funcs.get(key) or funcs[cands[0]]
        if len(node.input) != len(f.input):
            problems.append(f"{where}: call {node.op_type} passes {len(node.input)} inputs, definition has {len(f.input)}")
        if len(node.output) != len(f.output):
            problems.append(f"{where}: call {node.op_type} binds {len(node.output)} outputs, definition has {len(f.output)}")
        if node.domain not in imported:
            problems.append(f"{where}: call domain {node.domain!r} not imported")

    for n in all_nodes(model.graph):
        if n.domain not in ("", "ai.onnx"):
            check_call(n, "graph")
    for f in model.functions:
        for n in f.node:
            if n.domain not in ("", "ai.onnx"):
                check_call(n, f"function {f.name}")
    return problems


def iter_all_nodes(model: onnx.ModelProto) -> Iterator[Tuple[str, Any]]:
    def rec(g, path):
        for idx, n in enumerate(g.node):
            yield f"{path}/node[{idx}]", n
            for nm, sg in subgraphs(n):
                yield from rec(sg, f"{path}/node[{idx}].{nm}")
    yield from rec(model.graph, "graph")
    for f in model.functions:
        for idx, n in enumerate(f.node):
            yield f"function {f.name}/node[{idx}]", n
            for nm, sg in subgraphs(n):
                yield from rec(sg, f"function {f.name}/node[{idx}].{nm}")


def schema_problems(model: onnx.ModelProto, opset: Optional[int] = None) -> List[str]:
    """Every default-domain node has a schema at the declared opset whose input/output arity and
    attribute names admit the node (nothing newer than the declared opset)."""
    problems: List[str] = []
    declared = {o.domain: o.version for o in model.opset_import}
    ver = opset if opset is not None else declared.get("", declared.get("ai.onnx"))
    if ver is None:
        return ["model does not import the default domain"]
    fn_names = {(f.domain, f.name) for f in model.functions}
    for where, n in iter_all_nodes(model):
        if n.domain not in ("", "ai.onnx"):
            continue
        if ("", n.op_type) in fn_names:
            continue
        try:
            sch = defs.get_schema(n.op_type, ver, "")
        except Exception:
            try:
                newest = defs.get_schema(n.op_type, "")
                problems.append(f"{where}: operator {n.op_type} does not exist at opset {ver} (introduced in {newest.since_version})")
            except Exception:
                problems.append(f"{where}: unknown operator {n.op_type}")
            continue
        if sch.since_version > ver:
            problems.append(f"{where}: {n.op_type} schema since_version {sch.since_version} > declared opset {ver}")
        n_in = len(n.input)
        while n_in and not n.input[n_in - 1]:
            n_in -= 1
        if n_in > sch.max_input or n_in < sch.min_input:
            problems.append(f"{where}: {n.op_type}-{sch.since_version} takes {sch.min_input}..{sch.max_input} inputs, node has {n_in}")
        if len(n.output) > sch.max_output or len(n.output) < sch.min_output:
            problems.append(f"{where}: {n.op_type}-{sch.since_version} yields {sch.min_output}..{sch.max_output} outputs, node has {len(n.output)}")
        attrs = set(sch.attributes)
        for a in n.attribute:
            if a.name not in attrs:
                problems.append(f"{where}: {n.op_type}-{sch.since_version} has no attribute {a.name!r} at opset {ver}")
    return problems


def elem_types(model: onnx.ModelProto) -> Dict[int, List[str]]:
    """Recursive scan: element type -> places where it occurs (initializers, constants, value_info, io, Cast targets)."""
    found: Dict[int, List[str]] = {}

    def note(t: int, where: str) -> None:
        found.setdefault(t, [])
        if len(found[t]) < 5:
            found[t].append(where)

    def scan_value_infos(vs, where):
        for v in vs:
            if v.type.HasField("tensor_type"):
                note(v.type.tensor_type.elem_type, f"{where}:{v.name}")

    def scan_graph(g, path):
        scan_value_infos(g.input, path + ".input")
        scan_value_infos(g.output, path + ".output")
        scan_value_infos(g.value_info, path + ".value_info")
        for i in g.initializer:
            note(i.data_type, f"{path}.initializer:{i.name}")
        scan_nodes(g.node, path)

    def scan_nodes(nodes, path):
        for idx, n in enumerate(nodes):
            for a in n.attribute:
                if a.type == AttributeProto.TENSOR:
                    note(a.t.data_type, f"{path}/node[{idx}]({n.op_type}).{a.name}")
                elif a.type == AttributeProto.TENSORS:
                    for t in a.tensors:
                        note(t.data_type, f"{path}/node[{idx}]({n.op_type}).{a.name}")
                elif a.type == AttributeProto.GRAPH:
                    scan_graph(a.g, f"{path}/node[{idx}].{a.name}")
                elif a.type == AttributeProto.GRAPHS:
                    for sg in a.graphs:
                        scan_graph(sg, f"{path}/node[{idx}].{a.name}")
                elif a.name in ("to", "dtype") and a.type == AttributeProto.INT and n.op_type in (
                        "Cast", "RandomNormal", "RandomUniform", "RandomNormalLike", "RandomUniformLike", "EyeLike",
                        "ConstantOfShape", "Bernoulli", "Multinomial"):
                    note(int(a.i), f"{path}/node[{idx}]({n.op_type}).{a.name}")
                elif a.name in ("value_float", "value_floats") and n.op_type == "Constant":
                    note(1, f"{path}/node[{idx}](Constant).{a.name}")

    scan_graph(model.graph, "graph")
    for f in model.functions:
        scan_value_infos(getattr(f, "value_info", []), f"function {f.name}.value_info")
        scan_nodes(f.node, f"function {f.name}")
    return found


def ort_limitation(msg: str) -> bool:
    """Messages by which ONNX Runtime itself says it lacks a kernel / does not support the opset
    (its limitation, not a property of the model)."""
    return ("NOT_IMPLEMENTED : Could not find an implementation" in msg
            or "ValidateOpsetForDomain" in msg
            or "is under development and support for this is limited" in msg)


def structural_report(model: onnx.ModelProto, *, ort_load: bool = True, strict_inference: bool = True) -> Dict[str, Any]:
    """All four parts of the structural oracle. -> {"problems": [...], "ort": status}"""
    problems: List[str] = []
    try:
        onnx.checker.check_model(model, full_check=True)
    except Exception as e:  # noqa: BLE001
        problems.append("checker: " + str(e).strip().splitlines()[0][:300])
    if strict_inference:
        try:
            onnx.shape_inference.infer_shapes(model, strict_mode=True)
        except Exception as e:  # noqa: BLE001
            problems.append("strict shape inference: " + str(e).strip().splitlines()[0][:300])
    problems += ["scope: " + p for p in walk_scopes(model)]
    problems += ["function: " + p for p in walk_functions(model)]
    ort_status = "skipped"
    if ort_load:
        from mc.runners import make_session
        sess, err = make_session(model.SerializeToString())
        if sess is not None:
            ort_status = "ok"
        elif ort_limitation(str(err)):
            ort_status = "ort_limitation: " + str(err)[:200]
        else:
            ort_status = "load_error: " + str(err)[:300]
    return {"problems": problems, "ort": ort_status}
