"""Regenerates MANIFEST.json from the table below (kept valid at all times)."""
import json, os
ROOT = os.path.dirname(os.path.dirname(os.path.abspath(__file__)))
BASE = json.load(open('/root/.vp/BASELINE.json'))['cmd'] if os.path.exists('/root/.vp/BASELINE.json') else ''

CHECKS = {
 "C08": ("bounded exhaustive enumeration of exports x symbol bindings x branches with runtime observation of every annotated value",
         "Every corpus export and nesting-grammar export is executed for several symbol bindings (default / all ones / primes) and both branch signs with EVERY annotated value observed: top-level values as extra ORT outputs, nested Loop/If/function scopes through a hooked ONNX reference evaluator; declared dtype, rank, concrete dims and symbol consistency must be refined by the runtime tensors. Annotations are also captured immediately before and after the real postprocess_ir_model call: I/O identical, intermediates only weakened.",
         "ORT / reference evaluator report true runtime shapes (values downstream of Loop scan outputs in the reference evaluator are excluded: known evaluator artefact).",
         "DESIGN.md section 2, C08", "model_checking"),
 "C13": ("explicit-state search over conversion histories on the real to_onnx with fault injection at every patch application; state = process snapshot",
         "All histories up to depth 2 (3 thorough) over 17 succeeding/failing conversion events plus a fault injected at each of the ~500 tracing-time patch applications; after every event the process snapshot (identity of >100k callable/class attributes of jax*/flax*/equinox* modules and classes, x64 flag, converter patch bookkeeping, user model digests, behavioural probes incl. a jit helper first traced during conversion) must equal the initial one. Histories start from verified-pristine worker processes.",
         "plain-data attributes are not compared; first-time imports are not differences; seam plugin_system.apply_patches (degrades if absent).",
         "DESIGN.md section 2, C13", "model_checking"),
 "C14": ("bounded exhaustive enumeration of request x prefix-history x repetition x hash seed x import order x set-iteration-order (deviation-bounded choice tree), digest equality",
         "10 requests x all prefix histories of length <=1 and failing/function pairs of length 2 (all pairs thorough) x 3 repetitions, 4 (16) PYTHONHASHSEED values in separate interpreters, reversed plugin import order, and every rotation/reversal of every iteration of the optimizer's set()-built collections (deviation bound 1 quick / 2 thorough) must produce the SHA-256 of the first export in a fresh default process.",
         "deterministic protobuf serialisation is canonical; seeds outside the list not explored.",
         "DESIGN.md section 2, C14", "model_checking"),
 "C03": ("bounded exhaustive enumeration of corpus programs and nesting-tree grammar through the real to_onnx, structural oracle on every export",
         "Every corpus program at its own configuration (thorough: x opsets 21/24/newest) and every nesting word of length <=2 (3 thorough) over {while, fori, scan, cond, onnx_function, onnx_function(unique)} x 4 body variants x {concrete, symbolic} is exported; each returned model must pass onnx.checker(full), strict shape inference, ORT session creation (ORT's own kernel/opset gaps triaged by message) and an independent SSA/scope/function-arity walker.",
         "onnx checker/inference and ORT loading are the validity oracles; exports that raise are outside the property.",
         "DESIGN.md section 2, C03", "model_checking"),
 "C09": ("bounded exhaustive enumeration: recursive element-type scan of all single-precision exports, differential execution of all all-float64 double-precision programs on non-f32-representable mantissas, x64-flag state matrix",
         "(a) every single-precision corpus export and 14 constant-lattice programs scanned recursively for DOUBLE/COMPLEX128 in tensors, constants, casts, value_info and I/O; (b) every double-precision corpus variant whose JAX-x64 jaxpr is all-float64, plus the constant-lattice programs (constants in loop/cond/scan/function bodies), executed in ORT on inputs with non-f32 mantissas against eager JAX-x64 at 1e-9 relative; (c) x64 flag before==after for 2 start states x 2 flags x 3 outcomes.",
         "eager JAX x64 as reference; only the 1e-9..1e-5 relative error band is attributed to precision (larger = C01).",
         "DESIGN.md section 2, C09", "model_checking"),
 "C11": ("bounded exhaustive enumeration of corpus programs x target opsets through the real to_onnx, schema/validity/equivalence oracle",
         "Every corpus program x opsets {21,24,newest} (thorough: all of 21..newest): declared import equals the request (functions included); every node in every scope has an onnx.defs schema at that opset admitting its arity and attribute names; checker; ORT load/run where ORT supports it else the ONNX reference evaluator; outputs equal to the baseline-opset export (like-with-like evaluator). Raising is an explicit refusal.",
         "installed onnx.defs define opset contents; cross-opset numeric agreement judged at rtol 1e-4.",
         "DESIGN.md section 2, C11", "model_checking"),
 "C01": ("bounded exhaustive enumeration of corpus programs x value-lattice input patterns on the real to_onnx, differential against eager JAX",
         "Every registered plugin/example testcase of the working tree (expanded as the project's generator does) is exported by the real to_onnx in exporter processes and executed in ONNX Runtime for every combination of lattice input patterns (negative, zero, half-integer, tiny/large, index-edge integers, booleans); oracle processes evaluate the same callable in eager JAX (f32 and f64). Integers/bools bit-exact, floats within K*max(|j32-r64|, ulp32). All programs x all pattern combinations within the stated bounds are covered, none sampled.",
         "Eager JAX is the reference; ORT CPU kernels triaged by the ONNX reference evaluator; inputs outside the lattice and heavy examples (quick tier) not explored; documented preconditions (sorted bins) are respected by the generator.",
         "DESIGN.md section 2, C01", "model_checking"),
 "C02": ("explicit-state exploration of all small ONNX graphs per rewrite family through the real optimize_graph, before/after execution",
         "All graphs with <=N nodes over each rewrite family's operator alphabet (Transpose/Reshape pairs with elementwise, Max/Min/Clip, ReduceMean, Add forests; Mul+Sigmoid at opset 24; Dropout+Not) x every output subset containing the final value x 4 shape-annotation modes are pushed through the real optimizer; before/after models run in ORT on two all-distinct feeds and must agree bit-exactly (count, order, dtype, shape, values). On violation the guilty pass is found by running the pipeline pass by pass.",
         "ORT CPU as executor of both models; graphs annotated by ONNX strict shape inference the way the converter stamps values; bound N<=3 quick, N<=4 thorough.",
         "DESIGN.md section 2, C02", "model_checking"),
 # id: (technique, level text, level note, design_ref, category)
 "C17": ("explicit enumeration of all element-type pairs through the real optimizer + exhaustive value-domain round trips",
         "Every ordered pair of ONNX element types (x graph variants) is pushed through the real optimize_graph; for every pair it folds, every bit pattern of the source type (<=16 bit always, all 2^32 in thorough) is round-tripped; Range/constant proofs are enumerated around every integer type boundary and executed before/after. Exhaustive within those bounds, on the implementation itself.",
         "numpy/ml_dtypes cast semantics = ONNX Cast on in-range values; ORT CPU kernels; 64-bit and complex sources only on a structured lattice.",
         "DESIGN.md section 2, C17", "model_checking"),
}
ALL = [f"C{i:02d}" for i in range(1, 20)]
NOT_YET = "check not built yet in this session (in scope for model checking, see DESIGN.md section 2); will be claimed once its explorer exists"

def main():
    checks = []
    for pid, (tech, text, note, ref, cat) in sorted(CHECKS.items()):
        checks.append({
            "property_id": pid,
            "quick_cmd": f"./check {pid} --tier quick",
            "thorough_cmd": f"./check {pid} --tier thorough",
            "evidence_file": f"/verif/evidence/{pid}.json",
            "replay_cmd_template": "./check replay {path}",
            "engine": "mc",
            "level_claimed": {"category": cat, "text": text, "design_ref": ref},
            "level_note": note,
            "technique": tech,
        })
    man = {
        "version": 1,
        "setup_cmd": "/venv/bin/python -m compileall -q mc checks && /venv/bin/python -c \"import jax, onnx, onnxruntime, onnx_ir, jax2onnx\"",
        "hooks": {"guard": "JAX2ONNX_VERIF", "enable": "export JAX2ONNX_VERIF=1 (set by ./check); no source hooks are currently needed: all seams are reached from outside at run time",
                  "baseline_off_cmd": BASE.replace('--junitxml=<file>', '').strip() or "cd /repo && /venv/bin/python -m pytest -q -p no:cacheprovider",
                  "source_commits": [], "add_only": True},
        "engines": [{"name": "mc", "path": "/verif/mc", "serves_properties": sorted(CHECKS),
                     "kind_free_text": "hand-written explicit-state / choice-tree explorer (prefix replay, deviation bounding, state hashing) driving the real jax2onnx code in a pool of long-lived worker processes"}],
        "checks": checks,
        "notes": "Every check drives the implementation itself (no abstract model); see DESIGN.md.",
        "not_applicable": [{"property_id": p, "reason": NOT_YET} for p in ALL if p not in CHECKS],
    }
    with open(os.path.join(ROOT, 'MANIFEST.json'), 'w') as f:
        json.dump(man, f, indent=1)
if __name__ == '__main__':
    main()
