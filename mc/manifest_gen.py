"""Regenerates MANIFEST.json from the table below (kept valid at all times)."""
import json, os
ROOT = os.path.dirname(os.path.dirname(os.path.abspath(__file__)))
BASE = json.load(open('/root/.vp/BASELINE.json'))['cmd'] if os.path.exists('/root/.vp/BASELINE.json') else ''

CHECKS = {
 "C04": ("bounded exhaustive enumeration of symbol bindings: every symbolic program exported once, executed for every assignment of a size set to its symbols",
         "37 shape-grammar programs (products, sums, floor division, modulo, max/min of dims, shape-as-value, reshape/concat/pad/tile/repeat/arange/eye/broadcast by a dim, size-1 broadcasting, transposed matmul, shared/unshared symbols) and every corpus program with symbolic dims are exported once and run in ORT for every assignment of {1,2,3,5(,7)} to their symbols against eager JAX on arrays of that size (grammar bit-exact).",
         "eager JAX is the reference; sizes outside the set are not explored; value mismatches that occur for every binding alike belong to C01.",
         "DESIGN.md section 2, C04", "model_checking"),
 "C05": ("bounded exhaustive enumeration of a signature grammar through the real to_onnx, compared with jax.eval_shape",
         "arity x argument dtypes x 16 result pytrees x 8 naming variants x input_params x precision flag x spec form (+ 12-argument signatures with unused arguments at any index, layout-flag subsets with mixed 4-D/other outputs): model inputs/outputs must match the call arguments and jax.eval_shape in count, order, names, dtype class / width rule, rank, static dims and symbol names; colliding names must be rejected.",
         "jax.eval_shape under the same x64 mode defines the expected leaves.",
         "DESIGN.md section 2, C05", "model_checking"),
 "C06": ("bounded exhaustive enumeration of a control-flow grammar x steering inputs, differential against eager JAX (bit-exact)",
         "cond (input / computed predicate), 2-way switch, while (input trip count, data-dependent exit), fori (N in 0..3, lower in {0,2,-2}), scan (L in 0..3, 0-2 scanned inputs, 1-2 carries, stacked outputs, two lengths sharing a capture) x 7-9 loop bodies (captures, int+float carries, slice/dynamic_slice/broadcast/concat/scatter) x all depth-2 nestings x every steering input (both branches, trip counts -1..5, exit after 0/1/k, index -1..3).",
         "eager JAX evaluated before conversion in the same worker is the reference (plain lax programs, exact arithmetic).",
         "DESIGN.md section 2, C06", "model_checking"),
 "C07": ("bounded exhaustive enumeration of function-boundary placements and call-site pairs, differential against the undecorated export and eager JAX",
         "All 26 non-trivial placements of {none, @onnx_function, unique} on a 3-level tree (nnx modules and plain functions) and all ordered pairs / triples (A,v), (v,A), (A,v,A) over 13 call-site variations (instances, weights, static bool/float/str/callable fields, static / traced / input_param keyword, shape, dtype) x {shared, unique}; call sites' results returned separately; ORT(decorated)==ORT(undecorated)==JAX bit-exactly; call-node arity vs definition.",
         "fresh qualified names per generated target; exact arithmetic.",
         "DESIGN.md section 2, C07", "model_checking"),
 "C10": ("bounded exhaustive enumeration of transformations x corpus units, exporter/oracle process separation",
         "T in {vmap, jit, grad of sum, jvp} (thorough: + vmap axes, jit of jit, vjp, checkpoint, custom_jvp, custom_vjp, vmap of grad) applied identically on both sides to the first units of every registered component (thorough: every unit); ORT(to_onnx(T(f))) vs eager T(f) on lattice patterns (C01 budget); exports that raise must be explicit unsupported errors.",
         "eager JAX of the transformed function is the reference; units = testcases with one float array input.",
         "DESIGN.md section 2, C10", "model_checking"),
 "C12": ("bounded exhaustive enumeration of layout-flag subsets, flagged export vs plain export",
         "12 generated 4-D programs and every corpus program with 4-D I/O x ALL subsets of flagged inputs x ALL subsets of flagged outputs: ORT(flagged)(to_nchw(x)) == to_nchw(ORT(plain)(x)) bit-exactly on all-distinct data (generated family also == eager JAX); 9-10 invalid requests per program must raise.",
         "plain export is the reference for flagged ones.",
         "DESIGN.md section 2, C12", "model_checking"),
 "C15": ("explicit enumeration of return/export modes x sizes around the spill threshold x all same-path export histories up to length 3",
         "4 modes (and every accepted spelling of them) x 5 parameter sizes (0.5 MiB .. 2.5 MiB around the 1 MiB threshold) x parameter placed at top level / only inside a Loop body, in clean directories, and all 84 histories of length <=3 over {std-large, std-small, web-large, web-small} to one path: the file (with sidecar) reloads to the proto-mode graph with bit-identical initializer bytes and equal ORT outputs; web leaves no sidecar; unreferenced stale sidecars are inert.",
         "onnx.load / ORT resolve external data relative to the model path.",
         "DESIGN.md section 2, C15", "model_checking"),
 "C16": ("fault enumeration: unsupported constructs x placements; optimizer abort at every pass index x scope x policy",
         "(a) 11 unsupported or partially supported constructs x 10 placements x {concrete, symbolic}: to_onnx raises (no file left) or the returned model equals eager JAX on every steering input; (b) the optimizer aborted at every pass k on the top graph and in every function body for 6 optimizer-heavy programs: default policy returns a valid model equal to JAX, strict policy re-raises.",
         "seam ir_optimizations._OPTIMIZER_PASSES (degrades if absent).",
         "DESIGN.md section 2, C16", "fault_enumeration"),
 "C18": ("exhaustive single-point mutation of stored models vs an independent comparator",
         "8 base models x every output element x 8 deltas (0.1*tol, 10*tol, 1e3*tol, NaN, +-inf, +-1) + shape / output-list / dtype-class mutants x 3 tolerance settings x 2 inputs: the real allclose verdict must equal an independent comparator applied to the mutant's real ORT outputs; x64 flag restored.",
         "ORT outputs of the mutated model are what the stored model really produces.",
         "DESIGN.md section 2, C18", "model_checking"),
 "C19": ("exhaustive static enumeration of substitute signatures x parameters x call forms + single-call differential table",
         "Layer 1: every installed MonkeyPatchSpec substitute (283) x every parameter of the original signature x {positional, keyword}: bind_partial on both under the converter's real activation context (1547 call forms). Layer 2: ~105 single-call programs with one non-default parameter each exported and compared with eager JAX (must equal or raise an explicit unsupported error). Layer 3: call forms harvested from the registered testcases (169 functions, ~240 recorded calls): every semantically identical positional/keyword split of each call is exported and must equal eager JAX.",
         "installed library versions only; layer 2 is a curated table; layer 3 covers the functions the testcases call.",
         "DESIGN.md section 2, C19", "model_checking"),
 "C08": ("bounded exhaustive enumeration of exports x symbol bindings x branches with runtime observation of every annotated value",
         "Every corpus export and nesting-grammar export is executed for several symbol bindings (default / all ones / primes) and both branch signs with EVERY annotated value observed: top-level values as extra ORT outputs, nested Loop/If/function scopes through a hooked ONNX reference evaluator; declared dtype, rank, concrete dims and symbol consistency must be refined by the runtime tensors. Annotations are also captured immediately before and after the real postprocess_ir_model call: I/O identical, intermediates only weakened. The same observation is applied after the real optimizer to a slice of the C02 graph space and to every Transpose / elementwise-chain / Transpose graph of length 2-3 over 10 operators.",
         "ORT / reference evaluator report true runtime shapes (values downstream of Loop scan outputs in the reference evaluator are excluded: known evaluator artefact).",
         "DESIGN.md section 2, C08", "model_checking"),
 "C13": ("explicit-state search over conversion histories on the real to_onnx with fault injection at every patch application; state = process snapshot",
         "All histories up to depth 2 (3 thorough) over 17 succeeding/failing conversion events plus a fault injected at each of the ~500 tracing-time patch applications; after every event the process snapshot (identity of >100k callable/class attributes of jax*/flax*/equinox* modules and classes, x64 flag, converter patch bookkeeping, user model digests, behavioural probes incl. a jit helper first traced during conversion) must equal the initial one. Histories start from verified-pristine worker processes.",
         "plain-data attributes are not compared; first-time imports are not differences; seam plugin_system.apply_patches (degrades if absent).",
         "DESIGN.md section 2, C13", "model_checking"),
 "C14": ("bounded exhaustive enumeration of request x prefix-history x repetition x hash seed x import order x set-iteration-order (deviation-bounded choice tree), digest equality",
         "10 requests x all prefix histories of length <=1 and failing/function pairs of length 2 (all pairs thorough) x 3 repetitions, 4 (16) PYTHONHASHSEED values in separate interpreters, reversed plugin import order, and every rotation/reversal of every iteration of the optimizer's set()-built collections (deviation bound 1 quick / 2 thorough) must produce the SHA-256 of the first export in a fresh default process.",
         "deterministic protobuf serialisation is canonical; seeds outside the list not explored.",
         "DESIGN.md section 2, C14", "model_checking"),
 "C03": ("bounded exhaustive enumeration of corpus programs and nesting-tree grammar through the real to_onnx, structural oracle on every export",
         "Every corpus program at its own configuration (thorough: x opsets 21/24/newest) and every nesting word of length <=2 (3 thorough) over {while, fori, scan, cond, onnx_function, onnx_function(unique)} x 4 body variants x {concrete, symbolic} is exported; each returned model must pass onnx.checker(full), strict shape inference, ORT session creation (ORT's own kernel/opset gaps triaged by message) and an independent SSA/scope/function-arity walker.",
         "onnx checker/inference and ORT loading are the validity oracles; exports that raise are outside the property.",
         "DESIGN.md section 2, C03", "model_checking"),
 "C09": ("bounded exhaustive enumeration: recursive element-type scan of all single-precision exports, differential execution of all all-float64 double-precision programs on non-f32-representable mantissas, x64-flag state matrix",
         "(a) every single-precision corpus export and 14 constant-lattice programs scanned recursively for DOUBLE/COMPLEX128 in tensors, constants, casts, value_info and I/O; (b) every double-precision corpus variant whose JAX-x64 jaxpr is all-float64, plus the constant-lattice programs (constants in loop/cond/scan/function bodies), executed in ORT on inputs with non-f32 mantissas against eager JAX-x64 at 1e-9 relative; (c) x64 flag before==after for 2 start states x 2 flags x 3 outcomes.",
         "eager JAX x64 as reference; only the 1e-9..1e-5 relative error band is attributed to precision (larger = C01).",
         "DESIGN.md section 2, C09", "model_checking"),
 "C11": ("bounded exhaustive enumeration of corpus programs x target opsets through the real to_onnx, schema/validity/equivalence oracle",
         "Every opset 21..newest for one variant of each corpus testcase (its _dynamic/_f64 siblings at {21, newest}; thorough: every opset for every variant): declared import equals the request (functions included); every node in every scope has an onnx.defs schema at that opset admitting its arity and attribute names; checker; ORT load/run where ORT supports it else the ONNX reference evaluator; outputs equal to the baseline-opset export (like-with-like evaluator). Raising is an explicit refusal.",
         "installed onnx.defs define opset contents; cross-opset numeric agreement judged at rtol 1e-4.",
         "DESIGN.md section 2, C11", "model_checking"),
 "C01": ("bounded exhaustive enumeration of corpus programs x value-lattice input patterns on the real to_onnx, differential against eager JAX",
         "Every registered plugin/example testcase of the working tree (expanded as the project's generator does), ~95 generated units (negative/tuple axes, keyword and mixed call forms, short chains) and mixed-dtype variants of the primitive testcases (one float argument at a time as int32; quick: a seed-rotated third) are exported by the real to_onnx in exporter processes and executed in ONNX Runtime for every combination of lattice input patterns (mixed-sign, zero, half-integer, zero-free and index-edge integers, booleans; thorough adds large/tiny/huge); oracle processes evaluate the same callable in JAX (f32 and f64). Integers/bools bit-exact, floats within K*max(|j32-r64|, ulp32). All programs x all pattern combinations within the stated bounds are covered, none sampled.",
         "Eager JAX is the reference; ORT CPU kernels triaged by the ONNX reference evaluator; inputs outside the lattice and heavy examples (quick tier) not explored; documented preconditions (sorted bins) are respected by the generator.",
         "DESIGN.md section 2, C01", "model_checking"),
 "C02": ("explicit-state exploration of all small ONNX graphs per rewrite family through the real optimize_graph, before/after execution",
         "All graphs with <=N nodes over each rewrite family's operator alphabet (Transpose/Reshape pairs with elementwise, Max/Min/Clip, ReduceMean, Add forests; Mul+Sigmoid at opset 24; Dropout+Not) x every output subset containing the final value x 4 shape-annotation modes are pushed through the real optimizer; before/after models run in ORT on two all-distinct feeds and must agree bit-exactly (count, order, dtype, shape, values). On violation the guilty pass is found by running the pipeline pass by pass. In addition corpus exports taken with the optimizer switched off are pushed through the pipeline pass by pass (quick: a seed-rotated quarter), and the thorough tier explores the iteration orders of the optimizer's set()-built collections for every graph it changes.",
         "ORT CPU as executor of both models; graphs annotated by ONNX strict shape inference the way the converter stamps values; bound N<=3 quick, N<=4 thorough.",
         "DESIGN.md section 2, C02", "model_checking"),
 # id: (technique, level text, level note, design_ref, category)
 "C17": ("explicit enumeration of all element-type pairs through the real optimizer + exhaustive value-domain round trips",
         "Every ordered pair of ONNX element types (x graph variants) is pushed through the real optimize_graph; for every pair it folds, every bit pattern of the source type (<=16 bit always, all 2^32 in thorough) is round-tripped; Range/constant proofs are enumerated around every integer type boundary and executed before/after. Exhaustive within those bounds, on the implementation itself.",
         "numpy/ml_dtypes cast semantics = ONNX Cast on in-range values; ORT CPU kernels; 64-bit and complex sources only on a structured lattice.",
         "DESIGN.md section 2, C17", "model_checking"),
}
# thorough commands that differ from `--tier thorough`: the seed-rotated slices of the quick tier, all rotations
# (C01: every mixed-dtype variant; C02: every corpus program pass by pass).  See DESIGN.md 10.5b.
THOROUGH_OVERRIDE = {
 "C01": "sh -c 'for s in 0 1 2; do VERIF_SEED=$s ./check C01 --tier quick || exit $?; done'",
 "C02": "sh -c 'for s in 0 1 2 3; do VERIF_SEED=$s ./check C02 --tier quick || exit $?; done'",
 # C10: `--tier thorough` (12 transformations x every unit) exists, but its >190 reports on the unchanged tree could
 # not be reviewed one by one in the time available, so it is not registered (DESIGN.md 10.5b).
 "C10": "./check C10 --tier quick",
}
ALL = [f"C{i:02d}" for i in range(1, 20)]
NOT_YET = "check not built yet in this session (in scope for model checking, see DESIGN.md section 2); will be claimed once its explorer exists"

def main():
    checks = []
    for pid, (tech, text, note, ref, cat) in sorted(CHECKS.items()):
        checks.append({
            "property_id": pid,
            "quick_cmd": f"./check {pid} --tier quick",
            "thorough_cmd": THOROUGH_OVERRIDE.get(pid, f"./check {pid} --tier thorough"),
            "evidence_file": f"/verif/evidence/{pid}.json",
            "replay_cmd_template": "./check replay {path}",
            "engine": "mc",
            "level_claimed": {"category": cat, "text": text, "design_ref": ref},
            "level_note": note,
            "technique": tech,
        })
    man = {
        "version": 1,
        "setup_cmd": "/venv/bin/python -m compileall -q mc checks && /venv/bin/python -c \"import jax, onnx, onnxruntime, onnx_ir, jax2onnx\"",
        "hooks": {"guard": "JAX2ONNX_VERIF", "enable": "export JAX2ONNX_VERIF=1 (set by ./check); no source hooks are currently needed: all seams are reached from outside at run time",
                  "baseline_off_cmd": BASE.replace('--junitxml=<file>', '').strip() or "cd /repo && /venv/bin/python -m pytest -q -p no:cacheprovider",
                  "source_commits": [], "add_only": True},
        "engines": [{"name": "mc", "path": "/verif/mc", "serves_properties": sorted(CHECKS),
                     "kind_free_text": "hand-written explicit-state / choice-tree explorer (prefix replay, deviation bounding, state hashing) driving the real jax2onnx code in a pool of long-lived worker processes"}],
        "checks": checks,
        "notes": "Every check drives the implementation itself (no abstract model); see DESIGN.md.",
        "not_applicable": [{"property_id": p, "reason": NOT_YET} for p in ALL if p not in CHECKS],
    }
    with open(os.path.join(ROOT, 'MANIFEST.json'), 'w') as f:
        json.dump(man, f, indent=1)
if __name__ == '__main__':
    main()
