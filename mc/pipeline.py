"""Two-stage pipeline: exporter processes feed oracle processes (never the same process)."""
from __future__ import annotations

import threading
from typing import Any, Callable, Dict, Iterator, List, Optional, Tuple

from mc.pool import Pool, QueueSource


def two_stage(stage1: Tuple[str, str], jobs1: List[Any], stage2: Tuple[str, str],
              make_job2: Callable[[Any, Any], Optional[Any]], *, n1: int = 5, n2: int = 11,
              init1=("mc.runners", "warm_export"), init2=("mc.runners", "warm_oracle"),
              timeout1: float = 300.0, timeout2: float = 300.0,
              on_stage1: Optional[Callable[[Any, Any], None]] = None,
              env1: Optional[Dict[str, str]] = None, env2: Optional[Dict[str, str]] = None,
              ) -> Iterator[Tuple[Any, Any]]:
    """Yield (job2, result2).  ``make_job2(job1, result1)`` returns the stage-2 job or None."""
    src = QueueSource()
    err: List[BaseException] = []

    def run1(pool1: Pool) -> None:
        try:
            for _i, j, r in pool1.imap(stage1[0], stage1[1], jobs1):
                if on_stage1 is not None:
                    on_stage1(j, r)
                j2 = make_job2(j, r)
                if j2 is not None:
                    if isinstance(j2, list):
                        for x in j2:
                            src.put(x)
                    else:
                        src.put(j2)
        except BaseException as e:  # noqa: BLE001
            err.append(e)
        finally:
            src.close()

    with Pool(n1, init=init1, job_timeout=timeout1, env=env1) as p1, \
            Pool(n2, init=init2, job_timeout=timeout2, env=env2, core_offset=n1) as p2:
        if callable(jobs1):
            jobs1 = jobs1(p1)
        th = threading.Thread(target=run1, args=(p1,), daemon=True)
        th.start()
        for _i, j2, r2 in p2.imap(stage2[0], stage2[1], src):
            yield j2, r2
        th.join()
    if err:
        raise err[0]
