"""JAX transformations applied identically on the exporter and the oracle side (C10)."""
from __future__ import annotations

from typing import Any, Callable, List, Tuple

import numpy as np

QUICK = ["vmap0", "jit", "grad_sum", "jvp"]
ALL = ["vmap0", "vmap_last", "vmap_out1", "jit", "jit_jit", "grad_sum", "jvp", "vjp", "checkpoint", "custom_jvp",
       "custom_vjp", "vmap_grad"]


def apply(fn: Callable, meta: List[Tuple[Tuple[Any, ...], Any]], name: str):
    """-> (transformed fn, meta of its positional inputs).  The unit has ONE float array input."""
    import jax
    import jax.numpy as jnp
    (shape, dt), = meta
    shape = tuple(shape)
    if name == "vmap0":
        return jax.vmap(fn), [((2,) + shape, dt)]
    if name == "vmap_last":
        return jax.vmap(fn, in_axes=len(shape), out_axes=0), [(shape + (2,), dt)]
    if name == "vmap_out1":
        def g(x):
            y = jax.vmap(fn, in_axes=0, out_axes=0)(x)
            return y
        return g, [((3,) + shape, dt)]
    if name == "jit":
        return jax.jit(fn), [(shape, dt)]
    if name == "jit_jit":
        inner = jax.jit(fn)
        return jax.jit(lambda x: inner(x) * 1.0), [(shape, dt)]
    if name == "grad_sum":
        return jax.grad(lambda x: jnp.sum(fn(x))), [(shape, dt)]
    if name == "jvp":
        return (lambda x, t: jax.jvp(fn, (x,), (t,))[1]), [(shape, dt), (shape, dt)]
    if name == "vjp":
        def g(x):
            y, pull = jax.vjp(fn, x)
            return pull(jnp.ones_like(y))[0]
        return g, [(shape, dt)]
    if name == "checkpoint":
        return jax.checkpoint(fn), [(shape, dt)]
    if name == "custom_jvp":
        @jax.custom_jvp
        def h(x):
            return fn(x)

        @h.defjvp
        def h_jvp(primals, tangents):
            return jax.jvp(fn, primals, tangents)
        return (lambda x: h(x)), [(shape, dt)]
    if name == "custom_vjp":
        @jax.custom_vjp
        def h(x):
            return fn(x)

        def fwd(x):
            y, pull = jax.vjp(fn, x)
            return y, pull

        def bwd(pull, g):
            return pull(g)
        h.defvjp(fwd, bwd)
        return jax.grad(lambda x: jnp.sum(h(x))), [(shape, dt)]
    if name == "vmap_grad":
        return jax.vmap(jax.grad(lambda x: jnp.sum(fn(x)))), [((2,) + shape, dt)]
    raise ValueError(name)


def is_unit(tp, meta) -> bool:
    if tp.get("input_params") or tp.get("inputs_as_nchw") or tp.get("outputs_as_nchw"):
        return False
    if len(meta) != 1:
        return False
    sh, dt = meta[0]
    if np.dtype(dt).kind != "f" or any(isinstance(d, str) for d in sh):
        return False
    return True
