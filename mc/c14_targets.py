"""Module-level @onnx_function targets with fixed qualified names (identical in every process)."""
import jax.numpy as jnp
from flax import nnx
from jax2onnx import onnx_function


@onnx_function
def shared_block(x):
    return jnp.tanh(x) * 2.0 + 1.0


@onnx_function(unique=True)
def unique_block(x):
    return jnp.tanh(x) * 2.0 + 1.0


@onnx_function
def param_block(x, scale=1.0, flag=True):
    y = x * scale
    return jnp.where(flag, y, -y)


@onnx_function
def implicit_block(x, alpha=1.0, beta=2.0, gamma=3.0):
    return x * alpha + beta - gamma


@onnx_function
class Inner(nnx.Module):
    def __init__(self, rngs):
        self.lin = nnx.Linear(3, 3, rngs=rngs)

    def __call__(self, x):
        return nnx.relu(self.lin(x))


class Outer(nnx.Module):
    def __init__(self):
        self.a = Inner(nnx.Rngs(0))
        self.b = Inner(nnx.Rngs(1))

    def __call__(self, x):
        return self.a(x) + self.b(self.a(x))
