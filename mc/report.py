"""Evidence files, replay artefacts, known-findings bookkeeping, exit protocol."""
from __future__ import annotations

import hashlib
import json
import os
import sys
import time
from typing import Any, Dict, List, Optional

ROOT = os.path.dirname(os.path.dirname(os.path.abspath(__file__)))
EVIDENCE_DIR = os.path.join(ROOT, "evidence")
REPLAY_DIR = os.path.join(ROOT, "replays")
FINDINGS_FILE = os.path.join(ROOT, "known_findings.json")
MAX_REPORTED = int(os.environ.get("VERIF_MAX_REPORTED", "200"))  # distinct violations written out per run; beyond that they are only counted


def seed() -> int:
    try:
        return int(os.environ.get("VERIF_SEED", "0"))
    except ValueError:
        return 0


def _json_default(o: Any) -> Any:
    try:
        import numpy as np

        if isinstance(o, np.generic):
            return o.item()
        if isinstance(o, np.ndarray):
            return o.tolist()
    except Exception:
        pass
    if isinstance(o, (set, frozenset)):
        return sorted(map(repr, o))
    if isinstance(o, bytes):
        return "bytes:" + hashlib.sha256(o).hexdigest()[:16]
    return repr(o)


def load_findings() -> List[Dict[str, Any]]:
    try:
        with open(FINDINGS_FILE) as f:
            return json.load(f).get("findings", [])
    except FileNotFoundError:
        return []


class Run:
    """One execution of one check: collects coverage, violations, writes evidence."""

    def __init__(self, prop: str, tier: str, level: str = "model_checking"):
        self.prop, self.tier, self.level = prop, tier, level
        self.t0 = time.time()
        self.cov: Dict[str, Any] = {
            "states": 0, "transitions": 0, "traces_validated_against_impl": 0,
            "evaluations": 0, "distinct_nontrivial": 0, "rule": "", "samples": [],
            "exhaustive": True, "caps": [],
        }
        self.assumptions: List[str] = []
        self.violations: List[Dict[str, Any]] = []
        self.known_hits: Dict[str, int] = {}
        self.harness_errors: List[str] = []
        self._known = {(f["property"], f["key"]): f for f in load_findings()
                       if f.get("status") == "known"}
        self._state_set: set = set()
        self._nontrivial: set = set()
        self._printed_known: set = set()
        self._viol_keys: Dict[str, int] = {}

    # --- coverage helpers -------------------------------------------------
    def state(self, key: str) -> None:
        self._state_set.add(key)

    def nontrivial(self, key: str) -> None:
        self._nontrivial.add(key)

    def add(self, name: str, n: int = 1) -> None:
        self.cov[name] = self.cov.get(name, 0) + n

    def sample(self, s: Any, limit: int = 6) -> None:
        if len(self.cov["samples"]) < limit:
            self.cov["samples"].append(s)

    def cap(self, what: str) -> None:
        self.cov["exhaustive"] = False
        if what not in self.cov["caps"]:
            self.cov["caps"].append(what)

    def harness_error(self, msg: str) -> None:
        self.harness_errors.append(msg)
        if len(self.harness_errors) <= 20:
            print(f"HARNESS-NOTE: property={self.prop} {msg}", flush=True)

    # --- violations -------------------------------------------------------
    def violation(self, key: str, what: str, replay: Dict[str, Any], cases: Optional[List[str]] = None) -> None:
        """Report a property violation identified by the stable case ``key``.

        ``cases`` (optional) are the concrete failing inputs under that key; a known finding that
        lists cases suppresses only those: anything failing beyond the listed set is a new violation."""
        k = (self.prop, key)
        if k in self._known:
            listed = self._known[k].get("cases")
            extra = sorted(set(cases or []) - set(listed)) if listed is not None and cases is not None else []
            self.known_hits[key] = self.known_hits.get(key, 0) + 1
            if key not in self._printed_known:
                self._printed_known.add(key)
                print(f"KNOWN-FINDING: property={self.prop} {self._known[k].get('what', what)} [key={key}]",
                      flush=True)
            if not extra:
                return
            key = key + "|beyond-known:" + ",".join(extra[:8])
            what = f"fails on inputs not covered by the known finding ({extra[:8]}): " + what
        if key in self._viol_keys:
            self._viol_keys[key] += 1
            return
        self._viol_keys[key] = 1
        if len(self._viol_keys) > MAX_REPORTED:
            self.violations.append({"key": key, "what": what[:200], "replay": None})
            return
        os.makedirs(REPLAY_DIR, exist_ok=True)
        h = hashlib.sha256(key.encode()).hexdigest()[:12]
        path = os.path.join(REPLAY_DIR, f"{self.prop}-{h}.json")
        with open(path, "w") as f:
            json.dump({"property": self.prop, "key": key, "what": what, "cases": cases, **replay}, f,
                      indent=1, default=_json_default)
        self.violations.append({"key": key, "what": what, "replay": path})
        if len(self.violations) <= 50:
            print(f"VIOLATION property={self.prop} replay={path}", flush=True)
            print(f"  detail: {key} :: {what[:400]}", flush=True)

    # --- finish -----------------------------------------------------------
    def finish(self) -> int:
        cov = self.cov
        if self._state_set:
            cov["states"] = max(cov.get("states", 0), len(self._state_set))
        if self._nontrivial:
            cov["distinct_nontrivial"] = len(self._nontrivial)
        cov["known_findings_hit"] = sorted(self.known_hits)
        cov["harness_notes"] = self.harness_errors[:20]
        ev = {
            "property_id": self.prop, "tier": self.tier, "seed": seed(), "level": self.level,
            "coverage": cov, "assumptions": self.assumptions,
            "wall_s": round(time.time() - self.t0, 2), "violations": len(self.violations),
        }
        os.makedirs(EVIDENCE_DIR, exist_ok=True)
        tmp = os.path.join(EVIDENCE_DIR, f".{self.prop}.json.tmp")
        with open(tmp, "w") as f:
            json.dump(ev, f, indent=1, default=_json_default)
        os.replace(tmp, os.path.join(EVIDENCE_DIR, f"{self.prop}.json"))
        print(f"[{self.prop}/{self.tier}] states={cov['states']} transitions={cov['transitions']} "
              f"traces={cov['traces_validated_against_impl']} evaluations={cov['evaluations']} "
              f"nontrivial={cov['distinct_nontrivial']} exhaustive={cov['exhaustive']} "
              f"known={len(self.known_hits)} violations={len(self.violations)} "
              f"wall={ev['wall_s']}s", flush=True)
        return 1 if self.violations else 0
