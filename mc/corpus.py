"""P-corpus: every testcase registered in PLUGIN_REGISTRY / EXAMPLE_REGISTRY metadata,
expanded exactly as the project's own generator does (dynamic/concrete x f32/f64).

The program list is rebuilt from the working tree on every run (new plugins are
picked up automatically).  Programs are addressed by a stable id (``pid``) so
that root and workers agree without pickling callables.
"""
from __future__ import annotations

import hashlib
import inspect
import os
import sys
import time
from typing import Any, Dict, List, Optional, Sequence, Tuple

import numpy as np

_PARAMS: Optional[List[Dict[str, Any]]] = None
_BY_PID: Dict[str, Dict[str, Any]] = {}

HEAVY_CONTEXT_HINTS = ("examples.vit", "examples.dino", "examples.gpt", "examples.eqx_dino", "examples.nnx_dino",
                       "examples.maxtext", "examples.onnx_functions", "examples.nnx_gpt_oss", "examples.eqx_gpt_oss")


def _ensure_path() -> None:
    if "/repo" not in sys.path:
        sys.path.insert(0, "/repo")


def params() -> List[Dict[str, Any]]:
    """All expanded testcases of the working tree (cached per process)."""
    global _PARAMS
    if _PARAMS is not None:
        return _PARAMS
    _ensure_path()
    import logging
    logging.disable(logging.WARNING)
    cwd = os.getcwd()
    try:
        os.chdir("/repo")
        from tests import t_generator as tg
        md = tg.load_plugin_metadata()
        out: List[Dict[str, Any]] = []
        seen: Dict[str, int] = {}
        for entry in md:
            try:
                tps = tg.generate_test_params(entry)
            except Exception:
                continue
            for tp in tps:
                pid = f"{tp.get('context', '?')}/{tp.get('component', '?')}/{tp.get('testcase', '?')}"
                k = seen.get(pid, 0)
                seen[pid] = k + 1
                if k:
                    pid = f"{pid}#{k}"
                tp["pid"] = pid
                out.append(tp)
    finally:
        os.chdir(cwd)
    try:  # generated units (compositions / call forms the plugin testcases do not contain)
        from mc import genunits
        for tp in genunits.testcases():
            tp["pid"] = f"{tp['context']}/{tp['component']}/{tp['testcase']}"
            out.append(tp)
    except Exception:
        pass
    _PARAMS = out
    _BY_PID.update({tp["pid"]: tp for tp in out})
    return out


def get(pid: str) -> Dict[str, Any]:
    params()
    return _BY_PID[pid]


def pids() -> List[str]:
    return [tp["pid"] for tp in params()]


def is_heavy(pid: str) -> bool:
    p = pid.lower()
    return any(h in p for h in HEAVY_CONTEXT_HINTS)


def double(tp: Dict[str, Any]) -> bool:
    return bool(tp.get("_enable_double_precision_test_setting", False))


def instantiate(tp: Dict[str, Any]):
    """Build the callable the way the generated tests do (construct_and_call under the variant's x64 mode)."""
    import jax
    obj = tp["callable"]
    if not hasattr(obj, "instantiate"):
        return obj
    target = double(tp)
    prev = bool(jax.config.jax_enable_x64)
    if prev != target:
        jax.config.update("jax_enable_x64", target)
    try:
        return obj.instantiate()
    finally:
        if prev != target:
            jax.config.update("jax_enable_x64", prev)


def input_meta(tp: Dict[str, Any]) -> Tuple[List[Any], List[Tuple[Tuple[Any, ...], Any]], Optional[List[np.ndarray]]]:
    """-> (specs for to_onnx, [(shape with symbols, numpy dtype)], testcase input values or None)."""
    import jax
    import jax.numpy as jnp
    dbl = double(tp)
    shapes = tp.get("input_shapes")
    dtypes = tp.get("input_dtypes")
    values = tp.get("input_values")
    specs: List[Any] = []
    meta: List[Tuple[Tuple[Any, ...], Any]] = []
    if shapes is not None:
        for i, sh in enumerate(shapes):
            sh = tuple(sh) if isinstance(sh, (list, tuple)) else (sh,)
            if dtypes:
                dt = dtypes[i]
                if dbl and np.issubdtype(dt, np.floating):
                    dt = jnp.float64
                specs.append(jax.ShapeDtypeStruct(sh, dt))
                meta.append((sh, np.dtype(dt)))
            else:
                specs.append(sh)
                meta.append((sh, np.dtype(np.float64 if dbl else np.float32)))
        return specs, meta, None
    if values is not None:
        vals = []
        for v in values:
            a = np.array(v)
            dt = a.dtype
            if dbl and np.issubdtype(dt, np.floating):
                dt = np.dtype(np.float64)
            specs.append(jax.ShapeDtypeStruct(a.shape, dt))
            meta.append((tuple(a.shape), np.dtype(dt)))
            vals.append(a)
        return specs, meta, vals
    return [], [], None


def export_kwargs(tp: Dict[str, Any]) -> Dict[str, Any]:
    return dict(
        input_params=tp.get("input_params", {}) or None,
        model_name=str(tp.get("testcase", "m")),
        opset=tp.get("opset_version", 23),
        enable_double_precision=double(tp),
        inputs_as_nchw=tp.get("inputs_as_nchw"),
        outputs_as_nchw=tp.get("outputs_as_nchw"),
        input_names=tp.get("input_names"),
        output_names=tp.get("output_names"),
        normalization_mode=tp.get("normalization_mode", "auto"),
    )


def override_dtypes(specs, meta, dtype_override):
    """Replace the dtype of selected positional inputs (mixed-dtype variants of a registered program)."""
    import jax
    if not dtype_override:
        return specs, meta
    specs, meta = list(specs), list(meta)
    for j, dt in dtype_override.items():
        j = int(j)
        if j >= len(meta):
            continue
        sh = meta[j][0]
        meta[j] = (sh, np.dtype(dt))
        specs[j] = jax.ShapeDtypeStruct(tuple(sh), np.dtype(dt))
    return specs, meta


def dtype_variants(tp: Dict[str, Any]) -> List[Dict[str, str]]:
    """Mixed-dtype variants: one float input at a time given as int32 (testcases that do not pin input dtypes)."""
    if tp.get("input_dtypes") or tp.get("input_params") or double(tp):
        return []
    if tp.get("input_shapes") is None and tp.get("input_values") is None:
        return []
    try:
        _specs, meta, _vals = input_meta(tp)
    except Exception:
        return []
    if not (1 <= len(meta) <= 3):
        return []
    return [{str(j): "int32"} for j, (_sh, dt) in enumerate(meta) if np.dtype(dt).kind == "f"]


def export(tp: Dict[str, Any], fn=None, dtype_override=None, **overrides):
    """to_onnx on the real implementation; returns ModelProto (raises what to_onnx raises)."""
    from jax2onnx import to_onnx
    if fn is None:
        fn = instantiate(tp)
    specs, _meta, _vals = input_meta(tp)
    specs, _meta = override_dtypes(specs, _meta, dtype_override)
    kw = export_kwargs(tp)
    kw.update(overrides)
    return to_onnx(fn, specs, **kw)


def random_free(fn, specs_meta, tp) -> bool:
    """True if the plugin-free jaxpr of the callable draws no random bits."""
    import jax
    try:
        args = [jax.ShapeDtypeStruct(tuple(2 if isinstance(d, str) else d for d in sh), dt) for sh, dt in specs_meta]
        kw = {k: v for k, v in (tp.get("input_params") or {}).items()}
        jpr = jax.make_jaxpr(lambda *a: fn(*a, **kw))(*args)
        txt = str(jpr)
    except Exception:
        return True
    return not any(t in txt for t in ("random_bits", "threefry", "rng_bit_generator", "rng_uniform", "random_seed",
                                      "random_wrap"))


def symbols(meta: Sequence[Tuple[Tuple[Any, ...], Any]]) -> List[str]:
    out: List[str] = []
    for sh, _ in meta:
        for d in sh:
            if isinstance(d, str) and d not in out:
                out.append(d)
    return out


def bind_shape(sh: Tuple[Any, ...], binding: Dict[str, int]) -> Tuple[int, ...]:
    return tuple(binding[d] if isinstance(d, str) else int(d) for d in sh)


def dtype_variant_job(arg) -> List[Any]:
    """Worker job: (pid, override) pairs of the mixed-dtype stripe for this tier/seed."""
    tier, seed = arg
    import hashlib
    out = []
    for tp in params():
        pid = tp["pid"]
        if is_heavy(pid) or not (pid.startswith("primitives.jnp/") or pid.startswith("primitives.lax/") or pid.startswith("primitives.nn/")):
            continue
        if tier == "quick" and (int(hashlib.sha256(pid.encode()).hexdigest()[:6], 16) + seed) % 3 != 0:
            continue
        for ov in dtype_variants(tp):
            out.append((pid, ov))
    return out


def pids_job(tier: str) -> List[str]:
    """Worker job: the program list of the working tree (the root never imports JAX)."""
    allp = pids()
    if tier == "quick":
        return [p for p in allp if not is_heavy(p)]
    return allp
