"""Shape-polymorphic program grammar for C04 (exact integer-valued data)."""
from __future__ import annotations

from typing import Any, Callable, Dict, List, Tuple

import numpy as np

PROGRAMS = [
    "scale_by_dim0", "scale_by_dim1", "dim_product_value", "flatten_m1", "reshape_merge_trailing", "reshape_split_static",
    "reshape_product", "concat_self_axis0", "concat_self_axis1", "pad_axis0", "mean_axis0", "mean_axis1", "sum_keepdims_bcast",
    "arange_dim0", "full_by_dims", "floordiv_dim", "mod_dim", "max_dims", "min_dims", "tile_by_static", "repeat_axis0",
    "add_row_bcast", "add_col_bcast", "transpose_matmul", "matmul_shared", "matmul_three_syms", "two_inputs_same_syms",
    "outer_two_syms", "swap_reshape", "slice_to_dim_minus1", "eye_like_dim", "where_iota_lt_dim", "cumsum_axis0",
    "stack_and_reshape", "broadcast_to_dims", "dim_diff", "squeeze_unsqueeze",
    "floordiv_both_orders", "mod_both_orders", "dim_square_plus_twice", "dim_poly_mix", "reshape_swap_elementwise",
    "reshape_swap_reduce", "sub_both_orders", "three_dims_mix",
    "m_reshape_product", "m_reshape_swap_relu", "m_reshape_swap_reduce", "m_flatten_back", "m_reshape_split_merge",
]


def build(name: str):
    """-> (fn, input shape specs with symbols (tuple per input), number of float inputs)"""
    import jax.numpy as jnp
    BN = ("B", "N")
    if name == "scale_by_dim0":
        return (lambda x: x * x.shape[0]), [BN]
    if name == "scale_by_dim1":
        return (lambda x: x + x.shape[1] * 2), [BN]
    if name == "dim_product_value":
        return (lambda x: jnp.sum(x) + x.shape[0] * x.shape[1]), [BN]
    if name == "flatten_m1":
        return (lambda x: jnp.reshape(x, (-1,)) * 2.0), [BN]
    if name == "reshape_merge_trailing":
        return (lambda x: jnp.reshape(x, (x.shape[0], -1)) + 1.0), [("B", "N", 2)]
    if name == "reshape_split_static":
        return (lambda x: jnp.reshape(x, (x.shape[0], 2, 3)) * 2.0), [("B", 6)]
    if name == "reshape_product":
        return (lambda x: jnp.reshape(x, (x.shape[0] * x.shape[1],)) + 1.0), [BN]
    if name == "concat_self_axis0":
        return (lambda x: jnp.concatenate([x, x * 2.0], axis=0)), [BN]
    if name == "concat_self_axis1":
        return (lambda x: jnp.concatenate([x, x + 1.0, x], axis=1)), [BN]
    if name == "pad_axis0":
        return (lambda x: jnp.pad(x, ((1, 2), (0, 0)))), [BN]
    if name == "mean_axis0":
        return (lambda x: jnp.sum(x, axis=0) / x.shape[0] * x.shape[0]), [BN]
    if name == "mean_axis1":
        return (lambda x: jnp.sum(x * x.shape[1], axis=1)), [BN]
    if name == "sum_keepdims_bcast":
        return (lambda x: x - jnp.sum(x, axis=1, keepdims=True)), [BN]
    if name == "arange_dim0":
        return (lambda x: x + jnp.arange(x.shape[0], dtype=x.dtype)[:, None]), [BN]
    if name == "full_by_dims":
        return (lambda x: jnp.full((x.shape[1],), x.shape[0], dtype=x.dtype) + x[0]), [BN]
    if name == "floordiv_dim":
        return (lambda x: x * ((x.shape[0] + 1) // 2)), [BN]
    if name == "mod_dim":
        return (lambda x: x + (x.shape[0] % 2) + (x.shape[1] % 3) * 2), [BN]
    if name == "max_dims":
        return (lambda x: x * jnp.maximum(x.shape[0], x.shape[1])), [BN]
    if name == "min_dims":
        return (lambda x: x + min(5, 3) + jnp.minimum(x.shape[0], x.shape[1])), [BN]
    if name == "tile_by_static":
        return (lambda x: jnp.tile(x, (2, 1)) + 1.0), [BN]
    if name == "repeat_axis0":
        return (lambda x: jnp.repeat(x, 2, axis=0) * 2.0), [BN]
    if name == "add_row_bcast":
        return (lambda x, r: x + r), [BN, (1, "N")]
    if name == "add_col_bcast":
        return (lambda x, c: x * 2.0 + c), [BN, ("B", 1)]
    if name == "transpose_matmul":
        return (lambda x: x.T @ x), [BN]
    if name == "matmul_shared":
        return (lambda a, b: a @ b), [BN, ("N", 3)]
    if name == "matmul_three_syms":
        return (lambda a, b: a @ b + 1.0), [BN, ("N", "M")]
    if name == "two_inputs_same_syms":
        return (lambda a, b: a * 2.0 - b), [BN, BN]
    if name == "outer_two_syms":
        return (lambda a, b: a[:, None] * b[None, :] + 1.0), [("B",), ("N",)]
    if name == "swap_reshape":
        return (lambda x: jnp.reshape(jnp.reshape(x, (-1,)), (x.shape[1], x.shape[0]))), [BN]
    if name == "slice_to_dim_minus1":
        return (lambda x: x[: x.shape[0] - 1 + 1, :1] * 2.0), [BN]
    if name == "eye_like_dim":
        return (lambda x: x @ jnp.eye(x.shape[1], dtype=x.dtype) * 2.0), [BN]
    if name == "where_iota_lt_dim":
        return (lambda x: jnp.where(jnp.arange(x.shape[1])[None, :] < x.shape[0], x, -x)), [BN]
    if name == "cumsum_axis0":
        return (lambda x: jnp.cumsum(x, axis=0)), [BN]
    if name == "stack_and_reshape":
        return (lambda x: jnp.reshape(jnp.stack([x, x * 2.0], axis=0), (2 * x.shape[0], x.shape[1]))), [BN]
    if name == "broadcast_to_dims":
        return (lambda x: jnp.broadcast_to(x[:1], (x.shape[0], x.shape[1])) + x), [BN]
    if name == "dim_diff":
        return (lambda x: x + (x.shape[0] - x.shape[1])), [BN]
    if name == "squeeze_unsqueeze":
        return (lambda x: jnp.squeeze(x[:, :, None], axis=2) + jnp.expand_dims(x, 0)[0]), [BN]
    if name == "floordiv_both_orders":
        return (lambda x: x * (x.shape[0] // x.shape[1]) + (x.shape[1] // x.shape[0])), [BN]
    if name == "mod_both_orders":
        return (lambda x: x * (x.shape[0] % x.shape[1]) + (x.shape[1] % x.shape[0])), [BN]
    if name == "dim_square_plus_twice":
        return (lambda x: x * (x.shape[0] * x.shape[0]) + 2 * x.shape[0]), [BN]
    if name == "dim_poly_mix":
        return (lambda x: x + (3 * x.shape[0] + x.shape[0] * x.shape[1] + x.shape[1] * x.shape[1] + 2 * x.shape[1])), [BN]
    if name == "reshape_swap_elementwise":
        import jax
        return (lambda x: jnp.reshape(jax.nn.relu(jnp.reshape(x, (x.shape[0] * x.shape[1],))), (x.shape[1], x.shape[0]))), [BN]
    if name == "reshape_swap_reduce":
        return (lambda x: jnp.sum(jnp.reshape(jnp.maximum(jnp.reshape(x, (-1,)), -1.0), (x.shape[1], x.shape[0])), axis=0)), [BN]
    if name == "sub_both_orders":
        return (lambda x: x * (x.shape[0] - x.shape[1]) + (x.shape[1] - x.shape[0]) * 2), [BN]
    if name == "three_dims_mix":
        return (lambda a, b: a @ b + (a.shape[0] * 100 + a.shape[1] * 10 + b.shape[1])), [BN, ("N", "M")]
    # array-method reshapes take a different lowering path than the substituted jnp.reshape
    if name == "m_reshape_product":
        return (lambda x: x.reshape(x.shape[0] * x.shape[1]) * 2.0), [BN]
    if name == "m_reshape_swap_relu":
        import jax
        return (lambda x: jax.nn.relu(x.reshape(x.shape[0] * x.shape[1])).reshape(x.shape[1], x.shape[0])), [BN]
    if name == "m_reshape_swap_reduce":
        import jax
        return (lambda x: jax.nn.relu(x.reshape(-1)).reshape(x.shape[1], x.shape[0]).sum(axis=0)), [BN]
    if name == "m_flatten_back":
        return (lambda x: (x.reshape(-1) + 1.0).reshape(x.shape[0], x.shape[1])), [BN]
    if name == "m_reshape_split_merge":
        return (lambda x: x.reshape(x.shape[0], 2, 3).sum(axis=1)), [("B", 6)]
    raise ValueError(name)


def symbols(specs) -> List[str]:
    out: List[str] = []
    for sh in specs:
        for d in sh:
            if isinstance(d, str) and d not in out:
                out.append(d)
    return out


def data(shape: Tuple[int, ...], k: int) -> np.ndarray:
    n = int(np.prod(shape)) if shape else 1
    return ((np.arange(n, dtype=np.float32) * (k + 1)) % 7 - 3.0).reshape(shape).astype(np.float32)
