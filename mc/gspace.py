"""Building small ONNX graphs directly (not through JAX) and driving the REAL optimizer on them.

Everything that touches jax2onnx is resolved by name at run time; a missing seam
degrades the check (reported in evidence) instead of crashing into an alarm.
"""
from __future__ import annotations

import dataclasses
import hashlib
from typing import Any, Callable, Dict, List, Optional, Sequence, Tuple

import numpy as np
import onnx
from onnx import TensorProto, helper, numpy_helper

OPSET = 23
IR_VERSION = 10


def vi(name: str, elem: int, shape: Optional[Sequence[Any]]):
    return helper.make_tensor_value_info(name, elem, None if shape is None else list(shape))


def const_init(name: str, arr: np.ndarray):
    return numpy_helper.from_array(np.asarray(arr), name)


def make_model(nodes, inputs, outputs, initializers=(), value_info=(), opset: int = OPSET,
               functions=(), extra_opsets=()) -> onnx.ModelProto:
    g = helper.make_graph(list(nodes), "g", list(inputs), list(outputs),
                          initializer=list(initializers), value_info=list(value_info))
    m = helper.make_model(g, opset_imports=[helper.make_opsetid("", opset), *extra_opsets],
                          functions=list(functions))
    m.ir_version = IR_VERSION
    return m


def annotate(model: onnx.ModelProto, strict: bool = True) -> onnx.ModelProto:
    """Stamp every intermediate with value_info via ONNX's own inference (the
    converter stamps every value; the optimizer relies on that metadata)."""
    return onnx.shape_inference.infer_shapes(model, strict_mode=strict, data_prop=False)


def model_digest(model: onnx.ModelProto) -> str:
    return hashlib.sha256(model.SerializeToString(deterministic=True)).hexdigest()


# --------------------------------------------------------------------------
# real optimizer seams
# --------------------------------------------------------------------------
def _opt_module():
    import jax2onnx.converter.ir_optimizations as m
    return m


def to_ir(model: onnx.ModelProto):
    import onnx_ir as ir
    return ir.from_proto(model)


def to_proto(ir_model) -> onnx.ModelProto:
    import onnx_ir as ir
    return ir.to_proto(ir_model)


def optimize(model: onnx.ModelProto) -> onnx.ModelProto:
    """Run the real ``optimize_graph`` on a copy of ``model``."""
    m = _opt_module()
    irm = to_ir(model)
    out = m.optimize_graph(irm)
    return to_proto(out if out is not None else irm)


def pass_names() -> List[str]:
    m = _opt_module()
    passes = getattr(m, "_OPTIMIZER_PASSES", None)
    if passes is None:
        return []
    return [getattr(p, "name", f"pass{i}") for i, p in enumerate(passes)]


def optimize_stepwise(model: onnx.ModelProto) -> Optional[List[Tuple[str, onnx.ModelProto]]]:
    """Run the pipeline one pass at a time by swapping the pass table of the real
    module for single-entry tables; returns [(pass name, model after pass)].
    None when the seam (``_OPTIMIZER_PASSES``) is unavailable."""
    m = _opt_module()
    passes = getattr(m, "_OPTIMIZER_PASSES", None)
    if not isinstance(passes, tuple) or not passes:
        return None
    irm = to_ir(model)
    out: List[Tuple[str, onnx.ModelProto]] = []
    try:
        for p in passes:
            m._OPTIMIZER_PASSES = (p,)
            res = m.optimize_graph(irm)
            if res is not None:
                irm = res
            out.append((getattr(p, "name", "?"), to_proto(irm)))
    finally:
        m._OPTIMIZER_PASSES = passes
    return out


# --------------------------------------------------------------------------
# execution
# --------------------------------------------------------------------------
_SESS_OPTS = None


def _sess_opts():
    global _SESS_OPTS
    import onnxruntime as ort
    if _SESS_OPTS is None:
        so = ort.SessionOptions()
        so.graph_optimization_level = ort.GraphOptimizationLevel.ORT_DISABLE_ALL
        so.intra_op_num_threads = 1
        so.inter_op_num_threads = 1
        so.log_severity_level = 4
        _SESS_OPTS = so
    return _SESS_OPTS


def ort_run(model: onnx.ModelProto, feeds: Dict[str, np.ndarray], limit: Optional[float] = None):
    """-> ("ok", [arrays]) | ("load_error", msg) | ("run_error", msg) | ("terminated", msg)
    With ``limit`` the run is cancelled through RunOptions.terminate after that many seconds."""
    import onnxruntime as ort
    try:
        sess = ort.InferenceSession(model.SerializeToString(), _sess_opts(),
                                    providers=["CPUExecutionProvider"])
    except Exception as e:  # noqa: BLE001
        return "load_error", str(e)[:500]
    ro = None
    timer = None
    if limit is not None:
        import threading
        ro = ort.RunOptions()
        timer = threading.Timer(limit, lambda: setattr(ro, "terminate", True))
        timer.daemon = True
        timer.start()
    try:
        names = {i.name for i in sess.get_inputs()}
        fd = {k: v for k, v in feeds.items() if k in names}
        outs = sess.run(None, fd, run_options=ro) if ro is not None else sess.run(None, fd)
    except Exception as e:  # noqa: BLE001
        if ro is not None and ro.terminate:
            return "terminated", f"cancelled after {limit}s"
        return "run_error", str(e)[:500]
    finally:
        if timer is not None:
            timer.cancel()
    return "ok", outs


def ref_run(model: onnx.ModelProto, feeds: Dict[str, np.ndarray]):
    from onnx.reference import ReferenceEvaluator
    try:
        ev = ReferenceEvaluator(model)
        names = set(ev.input_names)
        outs = ev.run(None, {k: v for k, v in feeds.items() if k in names})
    except Exception as e:  # noqa: BLE001
        return "error", f"{type(e).__name__}: {str(e)[:400]}"
    return "ok", [np.asarray(o) for o in outs]


def same_arrays(a: Sequence[np.ndarray], b: Sequence[np.ndarray]) -> Optional[str]:
    """Bit-exact comparison (NaN==NaN); returns None if equal else a description."""
    if len(a) != len(b):
        return f"output count {len(a)} != {len(b)}"
    for i, (x, y) in enumerate(zip(a, b)):
        x, y = np.asarray(x), np.asarray(y)
        if x.dtype != y.dtype:
            return f"output {i} dtype {x.dtype} != {y.dtype}"
        if x.shape != y.shape:
            return f"output {i} shape {x.shape} != {y.shape}"
        if x.dtype.kind in "fc" or x.dtype.kind == "V" or str(x.dtype) in ("bfloat16",):
            try:
                eq = np.array_equal(x, y, equal_nan=True)
            except TypeError:
                eq = np.array_equal(x.astype(np.float64), y.astype(np.float64), equal_nan=True)
        else:
            eq = np.array_equal(x, y)
        if not eq:
            return f"output {i} values differ: {x.reshape(-1)[:6]} vs {y.reshape(-1)[:6]}"
    return None


def structural_ok(model: onnx.ModelProto) -> Optional[str]:
    try:
        onnx.checker.check_model(model, full_check=True)
    except Exception as e:  # noqa: BLE001
        return f"checker: {str(e)[:300]}"
    return None


def op_histogram(model: onnx.ModelProto) -> Dict[str, int]:
    h: Dict[str, int] = {}

    def walk(g):
        for n in g.node:
            h[n.op_type] = h.get(n.op_type, 0) + 1
            for a in n.attribute:
                if a.type == onnx.AttributeProto.GRAPH:
                    walk(a.g)
                elif a.type == onnx.AttributeProto.GRAPHS:
                    for sg in a.graphs:
                        walk(sg)
    walk(model.graph)
    for f in model.functions:
        for n in f.node:
            h[n.op_type] = h.get(n.op_type, 0) + 1
    return h
