"""Small program grammars (built inside workers from picklable descriptors).

All bodies use exactly representable arithmetic (x2, +1, +0.5, small integers) so
results are bit-exact in float32 and no tolerance is involved.
"""
from __future__ import annotations

import itertools
from typing import Any, Callable, Dict, List, Sequence, Tuple

import numpy as np

CONSTRUCTS = ("while", "fori", "scan", "cond", "fn", "fn_unique")
BODY_VARIANTS = ("pure", "const", "tracer", "shape_twice")

_FN_COUNTER = [0]


def _fresh_fn(f: Callable, unique: bool) -> Callable:
    """Wrap ``f`` in a freshly named function decorated with @onnx_function (the plugin registry is keyed
    by qualified name and survives the process, so every generated target gets its own name)."""
    from jax2onnx import onnx_function
    _FN_COUNTER[0] += 1
    name = f"GenFn{_FN_COUNTER[0]}"

    def inner(x):
        return f(x)

    inner.__name__ = name
    inner.__qualname__ = name
    return onnx_function(inner, unique=True) if unique else onnx_function(inner)


def leaf_body(variant: str) -> Callable:
    import jax.numpy as jnp
    if variant == "pure":
        return lambda x, outer=None: x * 2.0 + 1.0
    if variant == "const":
        c = np.arange(3, dtype=np.float32) + 0.5
        return lambda x, outer=None: x * 2.0 + jnp.asarray(c)
    if variant == "tracer":
        return lambda x, outer=None: x * 2.0 + (outer if outer is not None else 1.0)
    if variant == "shape_twice":
        # two reshapes that both need the same (possibly symbolic) leading dimension
        return lambda x, outer=None: (jnp.reshape(jnp.reshape(x, (-1,)) * 2.0, (x.shape[0], 3))
                                      + jnp.reshape(jnp.reshape(x, (-1,)) + 1.0, (x.shape[0], 3)))
    raise ValueError(variant)


def wrap(construct: str, inner: Callable, variant: str) -> Callable:
    """One nesting level around ``inner(x, outer)``; returns f(x, outer)."""
    import jax
    import jax.numpy as jnp
    from jax import lax

    def with_outer(x, outer):
        # the value a deeper level may capture as a tracer
        return (x * 0.5) if variant == "tracer" else None

    if construct == "while":
        def f(x, outer=None):
            cap = with_outer(x, outer)
            return lax.while_loop(lambda c: c[0] < 2, lambda c: (c[0] + 1, inner(c[1], cap)), (jnp.int32(0), x))[1]
        return f
    if construct == "fori":
        def f(x, outer=None):
            cap = with_outer(x, outer)
            return lax.fori_loop(0, 2, lambda i, c: inner(c, cap), x)
        return f
    if construct == "scan":
        def f(x, outer=None):
            cap = with_outer(x, outer)

            def step(c, _):
                n = inner(c, cap)
                return n, jnp.sum(n)
            carry, ys = lax.scan(step, x, None, length=2)
            return carry + jnp.sum(ys)
        return f
    if construct == "cond":
        def f(x, outer=None):
            cap = with_outer(x, outer)
            return lax.cond(jnp.sum(x) > 0, lambda y: inner(y, cap), lambda y: y - 1.0, x)
        return f
    if construct in ("fn", "fn_unique"):
        def body(x):
            return inner(x, None)
        target = _fresh_fn(body, construct == "fn_unique")

        def f(x, outer=None):
            return target(x)
        return f
    raise ValueError(construct)


def nest_program(word: Sequence[str], variant: str) -> Callable:
    """word[0] is the outermost construct."""
    f = leaf_body(variant)
    for c in reversed(list(word)):
        f = wrap(c, f, variant)
    return lambda x: f(x, None)


def nest_words(max_depth: int) -> List[Tuple[str, ...]]:
    out: List[Tuple[str, ...]] = []
    for d in range(1, max_depth + 1):
        out += list(itertools.product(CONSTRUCTS, repeat=d))
    return out


def nest_cases(max_depth: int) -> List[Dict[str, Any]]:
    cases = []
    for w in nest_words(max_depth):
        for v in BODY_VARIANTS:
            for sym in (False, True):
                cases.append({"word": list(w), "variant": v, "symbolic": sym})
    return cases


def nest_spec(case: Dict[str, Any]):
    return [("B", 3)] if case["symbolic"] else [(2, 3)]


def nest_feed(case: Dict[str, Any], b: int = 2, sign: float = 1.0) -> np.ndarray:
    return (np.arange(b * 3, dtype=np.float32).reshape(b, 3) * 0.5 - 1.0) * sign
