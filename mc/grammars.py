"""Small program grammars (built inside workers from picklable descriptors).

All bodies use exactly representable arithmetic (x2, +1, +0.5, small integers) so
results are bit-exact in float32 and no tolerance is involved.
"""
from __future__ import annotations

import itertools
from typing import Any, Callable, Dict, List, Sequence, Tuple

import numpy as np

CONSTRUCTS = ("while", "fori", "scan", "cond", "fn", "fn_unique")
BODY_VARIANTS = ("pure", "const", "tracer", "shape_twice", "post_dim", "fn_reuse")

_FN_COUNTER = [0]


def _fresh_fn(f: Callable, unique: bool) -> Callable:
    """A freshly named module-level function decorated with @onnx_function.

    The function plugin patches ``module.<name>`` while tracing, so the target must be a real module
    attribute and call sites must look it up at call time (exactly like user code calling a decorated
    top-level function).  The registry is keyed by qualified name and survives the process, hence a
    fresh name per generated target."""
    import sys
    from jax2onnx import onnx_function
    _FN_COUNTER[0] += 1
    name = f"GenFn{_FN_COUNTER[0]}"
    mod = sys.modules[__name__]

    def inner(x):
        return f(x)

    inner.__name__ = name
    inner.__qualname__ = name
    inner.__module__ = __name__
    setattr(mod, name, inner)
    if unique:
        onnx_function(inner, unique=True)
    else:
        onnx_function(inner)
    return lambda x: getattr(mod, name)(x)


def leaf_body(variant: str) -> Callable:
    import jax.numpy as jnp
    if variant == "pure":
        return lambda x, outer=None: x * 2.0 + 1.0
    if variant == "const":
        c = np.arange(3, dtype=np.float32) + 0.5
        return lambda x, outer=None: x * 2.0 + jnp.asarray(c)
    if variant == "tracer":
        return lambda x, outer=None: x * 2.0 + (outer if outer is not None else 1.0)
    if variant == "shape_twice":
        # two reshapes that both need the same (possibly symbolic) leading dimension
        return lambda x, outer=None: (jnp.reshape(jnp.reshape(x, (-1,)) * 2.0, (x.shape[0], 3))
                                      + jnp.reshape(jnp.reshape(x, (-1,)) + 1.0, (x.shape[0], 3)))
    raise ValueError(variant)


def wrap(construct: str, inner: Callable, variant: str) -> Callable:
    """One nesting level around ``inner(x, outer)``; returns f(x, outer)."""
    import jax
    import jax.numpy as jnp
    from jax import lax

    def with_outer(x, outer):
        # the value a deeper level may capture as a tracer
        if variant == "post_dim":
            return outer  # thread the top-level capture (which carries the batch dimension) down to the leaf
        return (x * 0.5) if variant == "tracer" else None

    if construct == "while":
        def f(x, outer=None):
            cap = with_outer(x, outer)
            return lax.while_loop(lambda c: c[0] < 2, lambda c: (c[0] + 1, inner(c[1], cap)), (jnp.int32(0), x))[1]
        return f
    if construct == "fori":
        def f(x, outer=None):
            cap = with_outer(x, outer)
            return lax.fori_loop(0, 2, lambda i, c: inner(c, cap), x)
        return f
    if construct == "scan":
        def f(x, outer=None):
            cap = with_outer(x, outer)

            def step(c, _):
                n = inner(c, cap)
                return n, jnp.sum(n)
            carry, ys = lax.scan(step, x, None, length=2)
            return carry + jnp.sum(ys)
        return f
    if construct == "cond":
        def f(x, outer=None):
            cap = with_outer(x, outer)
            return lax.cond(jnp.sum(x) > 0, lambda y: inner(y, cap), lambda y: y - 1.0, x)
        return f
    if construct in ("fn", "fn_unique"):
        def body(x):
            return inner(x, None)
        target = _fresh_fn(body, construct == "fn_unique")

        def f(x, outer=None):
            return target(x)
        return f
    raise ValueError(construct)


def nest_program(word: Sequence[str], variant: str) -> Callable:
    """word[0] is the outermost construct."""
    import jax.numpy as jnp
    if variant == "post_dim":
        # the carried value does NOT have the (possibly symbolic) batch dimension, but the bodies capture and reduce a
        # value that has it; the outer scope needs that dimension again after the construct
        f = lambda c, outer=None: c * 2.0 + (jnp.sum(outer, axis=0) if outer is not None else 1.0)  # noqa: E731
        for c in reversed(list(word)):
            f = wrap(c, f, "post_dim")
        return lambda x: jnp.broadcast_to(f(jnp.sum(x, axis=0) * 0.5, x)[None, :], (x.shape[0], 3)) + x * 0.0
    if variant == "fn_reuse":
        # one decorated function with a shape-specific body instantiated with two signatures: deep inside the nest
        # (last dim 3) and again at top level (last dim 2)
        g = _fresh_fn(lambda y: y * jnp.asarray(np.arange(1, y.shape[-1] + 1, dtype=np.float32)) + 1.0, False)
        f = lambda y, outer=None: g(y)  # noqa: E731
        for c in reversed(list(word)):
            f = wrap(c, f, "pure")
        return lambda x: f(x, None) + jnp.sum(g(x[:, :2]))
    f = leaf_body(variant)
    for c in reversed(list(word)):
        f = wrap(c, f, variant)
    return lambda x: f(x, None)


def nest_words(max_depth: int) -> List[Tuple[str, ...]]:
    out: List[Tuple[str, ...]] = []
    for d in range(1, max_depth + 1):
        out += list(itertools.product(CONSTRUCTS, repeat=d))
    return out


def nest_cases(max_depth: int) -> List[Dict[str, Any]]:
    cases = []
    for w in nest_words(max_depth):
        for v in BODY_VARIANTS:
            for sym in (False, True):
                cases.append({"word": list(w), "variant": v, "symbolic": sym})
    return cases


def nest_spec(case: Dict[str, Any]):
    return [("B", 3)] if case["symbolic"] else [(2, 3)]


def nest_feed(case: Dict[str, Any], b: int = 2, sign: float = 1.0) -> np.ndarray:
    return (np.arange(b * 3, dtype=np.float32).reshape(b, 3) * 0.5 - 1.0) * sign


# --------------------------------------------------------------------------
# constant-lattice programs for the precision property (C09)
# --------------------------------------------------------------------------
CONST_KINDS = ("py_scalar", "np_f32_array", "np_f64_array", "jnp_literal", "in_fori", "in_scan", "in_cond", "in_while",
               "in_fn", "in_fn_in_fori", "division", "transcendental", "reduction", "matmul_const")


def const_program(kind: str) -> Callable:
    import jax
    import jax.numpy as jnp
    from jax import lax
    c32 = (np.arange(3, dtype=np.float32) + 1) / 3
    c64 = (np.arange(3, dtype=np.float64) + 1) / 3
    if kind == "py_scalar":
        return lambda x: x * 0.1 + 0.2
    if kind == "np_f32_array":
        return lambda x: x * c32 + 0.7
    if kind == "np_f64_array":
        return lambda x: x * c64 + 0.7
    if kind == "jnp_literal":
        return lambda x: x * jnp.asarray(0.1) + jnp.array([0.3, 0.6, 0.9])
    if kind == "in_fori":
        return lambda x: lax.fori_loop(0, 3, lambda i, c: c * 0.1 + 0.3, x)
    if kind == "in_scan":
        return lambda x: lax.scan(lambda c, _: (c * 0.1 + 0.3, jnp.sum(c) * 0.7), x, None, length=3)[0]
    if kind == "in_cond":
        return lambda x: lax.cond(jnp.sum(x) > 0.1, lambda y: y * 0.1 + 0.3, lambda y: y * 0.7 - 0.1, x)
    if kind == "in_while":
        return lambda x: lax.while_loop(lambda c: c[0] < 3, lambda c: (c[0] + 1, c[1] * 0.1 + 0.3), (jnp.int32(0), x))[1]
    if kind == "in_fn":
        t = _fresh_fn(lambda y: y * 0.1 + 0.3, False)
        return lambda x: t(x) + 0.7
    if kind == "in_fn_in_fori":
        t = _fresh_fn(lambda y: y * 0.1 + 0.3, False)
        return lambda x: lax.fori_loop(0, 2, lambda i, c: t(c), x)
    if kind == "division":
        return lambda x: x / 3.0 + 1.0 / 7.0
    if kind == "transcendental":
        return lambda x: jnp.exp(x * 0.1) + jnp.sin(x) * 0.3
    if kind == "reduction":
        return lambda x: jnp.mean(x * 0.1, axis=-1) + jnp.sum(x) * 0.3
    if kind == "matmul_const":
        w = (np.arange(9, dtype=np.float64).reshape(3, 3) + 1) / 7
        return lambda x: x @ jnp.asarray(w) + 0.1
    raise ValueError(kind)
