"""Process-state snapshot for C13/C14: identity of every callable / class / descriptor attribute of the loaded
JAX / Flax / Equinox (and related) modules and of every class defined in them, plus converter bookkeeping."""
from __future__ import annotations

import sys
import types
from typing import Any, Dict, List, Tuple

PREFIXES = ("jax", "jaxlib", "flax", "equinox", "dm_pix", "einops", "optax", "jaxtyping", "orbax")
LAZY_DUNDERS = {"__annotations__", "__dict__", "__weakref__", "__doc__", "__static_attributes__", "__firstlineno__",
                "__annotate__", "__annotate_func__", "__annotations_cache__", "__conditional_annotations__",
                "__parameters__", "__orig_bases__", "__abstractmethods__", "_abc_impl", "__match_args__",
                "__dataclass_fields__", "__dataclass_params__", "__builtins__", "__cached__", "__spec__", "__loader__",
                "__path__", "__file__", "__package__", "__name__", "__qualname__", "__module__", "__slots__"}


def _interesting(v: Any) -> bool:
    """Only attributes whose value is code or a type: functions, builtins, classes, descriptors, partials..."""
    if isinstance(v, (types.ModuleType,)):
        return False
    if isinstance(v, (int, float, complex, str, bytes, bool, type(None), tuple, list, dict, set, frozenset)):
        return False
    return callable(v) or isinstance(v, (classmethod, staticmethod, property, type)) or hasattr(v, "__get__")


def _in_scope(modname: str) -> bool:
    if modname.startswith("jax2onnx"):
        return False
    return any(modname == p or modname.startswith(p + ".") for p in PREFIXES)


def take() -> Dict[Tuple[str, str], int]:
    snap: Dict[Tuple[str, str], int] = {}
    seen_cls = set()
    for modname, mod in list(sys.modules.items()):
        if mod is None or not _in_scope(modname):
            continue
        try:
            d = vars(mod)
        except TypeError:
            continue
        for attr, val in list(d.items()):
            if attr in LAZY_DUNDERS:
                continue
            if _interesting(val):
                snap[(modname, attr)] = id(val)
            if isinstance(val, type) and id(val) not in seen_cls and _in_scope(getattr(val, "__module__", "") or ""):
                seen_cls.add(id(val))
                cname = f"{val.__module__}.{getattr(val, '__qualname__', val.__name__)}"
                try:
                    cd = vars(val)
                except TypeError:
                    continue
                for a2, v2 in list(cd.items()):
                    if a2 in LAZY_DUNDERS:
                        continue
                    if _interesting(v2):
                        snap[(cname, a2)] = id(v2)
    return snap


def diff(before: Dict[Tuple[str, str], int], after: Dict[Tuple[str, str], int]) -> List[str]:
    """Changed / deleted entries, and NEW callable/class entries on modules or classes that existed before."""
    out: List[str] = []
    owners_before = {k[0] for k in before}
    for k, v in before.items():
        if k not in after:
            out.append(f"deleted {k[0]}.{k[1]}")
        elif after[k] != v:
            out.append(f"changed {k[0]}.{k[1]}")
    for k in after:
        if k not in before and k[0] in owners_before:
            out.append(f"added {k[0]}.{k[1]}")
    return sorted(out)


def converter_state() -> Dict[str, Any]:
    st: Dict[str, Any] = {}
    try:
        import jax
        st["x64"] = bool(jax.config.jax_enable_x64)
    except Exception:
        pass
    try:
        import jax2onnx.plugins.plugin_system as ps
        ps_state = getattr(ps, "_PATCH_STATE", None)
        if ps_state is not None:
            st["patch_state_entries"] = len(ps_state)
        for nm in ("_IN_FUNCTION_BUILD", "_ONNX_FN_HITS"):
            cv = getattr(ps, nm, None)
            if cv is not None and hasattr(cv, "get"):
                try:
                    val = cv.get()
                    st[nm] = sorted(val) if isinstance(val, (set, frozenset)) else bool(val)
                except LookupError:
                    st[nm] = None
    except Exception:
        pass
    return st
