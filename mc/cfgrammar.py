"""Control-flow program grammar for C06 (built inside workers from picklable descriptors).

Every program takes a float (2,3) array (or a length-L sequence) plus steering inputs (bool predicate, int32 trip
count / index / threshold) and uses exact arithmetic (x2, +1, +0.5, small integers): results are bit-exact.
"""
from __future__ import annotations

import itertools
from typing import Any, Callable, Dict, List, Tuple

import numpy as np

BODIES = ("pure", "const", "tracer", "mixed_carry", "slice", "dynamic_slice", "broadcast", "concat", "scatter")


def _body(kind: str) -> Callable:
    """body(c, i, outer) -> new c   (c: float (2,3); i: int32 scalar iteration/index; outer: captured value or None)"""
    import jax.numpy as jnp
    from jax import lax
    cst = np.arange(3, dtype=np.float32) + 0.5
    if kind == "pure":
        return lambda c, i, outer: c * 2.0 + 1.0
    if kind == "const":
        return lambda c, i, outer: c + jnp.asarray(cst)
    if kind == "tracer":
        return lambda c, i, outer: c * 2.0 + (outer if outer is not None else 0.5)
    if kind == "mixed_carry":
        return lambda c, i, outer: c + i.astype(c.dtype) * 0.5
    if kind == "slice":
        return lambda c, i, outer: jnp.concatenate([c[:, 1:], c[:, :1] * 2.0], axis=1)
    if kind == "dynamic_slice":
        return lambda c, i, outer: c + lax.dynamic_slice(c, (jnp.int32(0), jnp.clip(i, 0, 2)), (2, 1))
    if kind == "broadcast":
        return lambda c, i, outer: c + jnp.broadcast_to(jnp.sum(c, axis=1, keepdims=True), c.shape) * 0.5
    if kind == "concat":
        return lambda c, i, outer: jnp.concatenate([c[:1] + 1.0, c[1:] * 2.0], axis=0)
    if kind == "scatter":
        return lambda c, i, outer: c.at[0, jnp.clip(i, 0, 2)].set(7.0)
    raise ValueError(kind)


def _x(sign: float = 1.0) -> np.ndarray:
    return ((np.arange(6, dtype=np.float32).reshape(2, 3) * 0.5 - 0.5) * sign).astype(np.float32)


def build(desc: Dict[str, Any]):
    """-> (fn, to_onnx specs, list of feeds (each a list of numpy args))"""
    import jax
    import jax.numpy as jnp
    from jax import lax
    k = desc["kind"]
    body = _body(desc.get("body", "pure"))
    i32 = jax.ShapeDtypeStruct((), jnp.int32)
    b1 = jax.ShapeDtypeStruct((), jnp.bool_)
    X = (2, 3)

    def outer_of(x):
        return x * 0.5 if desc.get("body") == "tracer" else None

    if k == "cond_input_pred":
        fn = lambda x, p: lax.cond(p, lambda y: body(y, jnp.int32(1), outer_of(x)), lambda y: y - 1.0, x)  # noqa: E731
        return fn, [X, b1], [[_x(s), np.bool_(p)] for s in (1.0, -1.0) for p in (False, True)]
    if k == "cond_computed_pred":
        fn = lambda x, t: lax.cond(jnp.sum(x) > t.astype(x.dtype), lambda y: body(y, jnp.int32(1), outer_of(x)), lambda y: y * 0.5, x)  # noqa: E731
        return fn, [X, i32], [[_x(s), np.int32(t)] for s in (1.0, -1.0) for t in (-10, 0, 3, 10)]
    if k == "switch2":
        fn = lambda x, i: lax.switch(i, [lambda y: body(y, jnp.int32(0), outer_of(x)), lambda y: y - 2.0], x)  # noqa: E731
        return fn, [X, i32], [[_x(s), np.int32(i)] for s in (1.0,) for i in (-1, 0, 1, 2, 3)]
    if k == "while_counter":
        fn = lambda x, n: lax.while_loop(lambda c: c[0] < n, lambda c: (c[0] + 1, body(c[1], c[0], outer_of(x))), (jnp.int32(0), x))[1]  # noqa: E731
        return fn, [X, i32], [[_x(s), np.int32(n)] for s in (1.0, -1.0) for n in (0, 1, 2, 3, 5, -1)]
    if k == "while_data_exit":
        def fn(x, t):
            def cond(c):
                return jnp.logical_and(jnp.sum(c[1]) < t.astype(x.dtype), c[0] < 6)
            return lax.while_loop(cond, lambda c: (c[0] + 1, body(c[1], c[0], outer_of(x)) + 0.5), (jnp.int32(0), x))
        return fn, [X, i32], [[_x(s), np.int32(t)] for s in (1.0, -1.0) for t in (-50, 0, 4, 40, 1000)]
    if k == "fori_static":
        lo, n = desc["lower"], desc["n"]
        fn = lambda x: lax.fori_loop(lo, lo + n, lambda i, c: body(c, i, outer_of(x)), x)  # noqa: E731
        return fn, [X], [[_x(1.0)], [_x(-1.0)]]
    if k == "scan":
        L, n_xs, n_carry, stacked = desc["L"], desc["n_xs"], desc["n_carry"], desc["stacked"]
        specs: List[Any] = [X] + [(L, 3)] * n_xs

        def fn(x, *xs):
            cap = outer_of(x)

            def step(carry, row):
                c = carry[0] if n_carry > 1 else carry
                i = carry[1] if n_carry > 1 else jnp.int32(1)
                n = body(c, i, cap)
                if n_xs >= 1:
                    n = n + (row[0] if n_xs > 1 else row)
                if n_xs >= 2:
                    n = n * 1.0 - row[1] * 0.5
                new = (n, i + 1) if n_carry > 1 else n
                return new, (jnp.sum(n, axis=0) if stacked else None)
            init = (x, jnp.int32(0)) if n_carry > 1 else x
            seq = None if n_xs == 0 else (xs[0] if n_xs == 1 else tuple(xs))
            carry, ys = lax.scan(step, init, seq, length=L if n_xs == 0 else None)
            out = carry[0] if n_carry > 1 else carry
            return (out, ys) if stacked else out
        seqs = [((np.arange(L * 3, dtype=np.float32).reshape(L, 3) + j) * 0.5).astype(np.float32) for j in range(n_xs)]
        return fn, specs, [[_x(1.0)] + seqs, [_x(-1.0)] + [s * -1.0 for s in seqs]]
    if k == "scan_two_lengths_shared":
        def fn(x, a, b):
            cap = x * 0.5
            c1, y1 = lax.scan(lambda c, r: (c + r + cap[0], jnp.sum(c)), x[0], a)
            c2, y2 = lax.scan(lambda c, r: (c * 2.0 + r - cap[1], jnp.sum(c)), x[1], b)
            return c1, c2, y1, y2
        a = (np.arange(6, dtype=np.float32).reshape(2, 3) * 0.5)
        b = (np.arange(12, dtype=np.float32).reshape(4, 3) * 0.25)
        return fn, [X, (2, 3), (4, 3)], [[_x(1.0), a, b], [_x(-1.0), -a, b]]
    if k == "nest":
        outer_k, inner_k = desc["outer"], desc["inner"]

        def inner(y, n, p, cap):
            if inner_k == "cond":
                return lax.cond(p, lambda v: body(v, n, cap), lambda v: v - 1.0, y)
            if inner_k == "while":
                return lax.while_loop(lambda c: c[0] < n, lambda c: (c[0] + 1, body(c[1], c[0], cap)), (jnp.int32(0), y))[1]
            if inner_k == "fori":
                return lax.fori_loop(0, 2, lambda i, c: body(c, i, cap), y)
            if inner_k == "scan":
                return lax.scan(lambda c, _: (body(c, jnp.int32(1), cap), None), y, None, length=2)[0]
            raise ValueError(inner_k)

        def fn(x, n, p):
            cap = outer_of(x)
            if outer_k == "cond":
                return lax.cond(jnp.sum(x) > 0.0, lambda v: inner(v, n, p, cap), lambda v: v * 0.5, x)
            if outer_k == "while":
                return lax.while_loop(lambda c: c[0] < n, lambda c: (c[0] + 1, inner(c[1], n, p, cap)), (jnp.int32(0), x))[1]
            if outer_k == "fori":
                return lax.fori_loop(0, 2, lambda i, c: inner(c, n, p, cap), x)
            if outer_k == "scan":
                c, ys = lax.scan(lambda c, _: (inner(c, n, p, cap), jnp.sum(c)), x, None, length=2)
                return c + jnp.sum(ys)
            raise ValueError(outer_k)
        feeds = [[_x(s), np.int32(n), np.bool_(p)] for s in (1.0, -1.0) for n in (0, 1, 3) for p in (False, True)]
        return fn, [X, i32, b1], feeds
    raise ValueError(k)


def cases(tier: str) -> List[Dict[str, Any]]:
    out: List[Dict[str, Any]] = []
    bodies = BODIES if tier == "thorough" else ("pure", "const", "tracer", "mixed_carry", "dynamic_slice", "scatter", "concat")
    for b in bodies:
        for k in ("cond_input_pred", "cond_computed_pred", "switch2", "while_counter", "while_data_exit"):
            out.append({"kind": k, "body": b})
        for lo in (0, 2, -2):
            for n in (0, 1, 2, 3):
                out.append({"kind": "fori_static", "body": b, "lower": lo, "n": n})
    scan_bodies = bodies if tier == "thorough" else ("pure", "tracer", "mixed_carry", "scatter")
    for b in scan_bodies:
        for L in (0, 1, 2, 3):
            for n_xs in (0, 1, 2):
                for n_carry in (1, 2):
                    for stacked in (False, True):
                        out.append({"kind": "scan", "body": b, "L": L, "n_xs": n_xs, "n_carry": n_carry, "stacked": stacked})
    out.append({"kind": "scan_two_lengths_shared"})
    nest_bodies = ("pure", "tracer") if tier == "quick" else ("pure", "tracer", "const", "mixed_carry")
    for o, i in itertools.product(("cond", "while", "fori", "scan"), repeat=2):
        for b in nest_bodies:
            out.append({"kind": "nest", "outer": o, "inner": i, "body": b})
    return out


def ident(desc: Dict[str, Any]) -> str:
    return "|".join(f"{k}={desc[k]}" for k in sorted(desc))
