"""Generated units: small well-typed compositions of supported library functions that the plugin testcases do not
contain (negative / tuple axes, keepdims, keyword call forms, mixed positional/keyword arguments, short chains).
They are appended to the corpus (context ``verif.gen``) so that every corpus-driven check (C01, C03, C08, C10, C11,
...) also explores them."""
from __future__ import annotations

from typing import Any, Callable, Dict, List

import numpy as np


def _units() -> Dict[str, Callable]:
    import jax
    import jax.numpy as jnp
    u: Dict[str, Callable] = {}
    for name in ("sum", "max", "min", "mean", "prod"):
        f = getattr(jnp, name)
        u[f"{name}_axis_m1"] = (lambda x, f=f: f(x, axis=-1))
        u[f"{name}_axis_m2_keepdims"] = (lambda x, f=f: f(x, axis=-2, keepdims=True))
        u[f"{name}_axis_tuple"] = (lambda x, f=f: f(x, axis=(0, 1)))
        u[f"{name}_axis0_positional"] = (lambda x, f=f: f(x, 0))
    u["var_axis_m1"] = lambda x: jnp.var(x, axis=-1)
    u["std_axis0_keepdims"] = lambda x: jnp.std(x, axis=0, keepdims=True)
    u["any_axis_m1"] = lambda x: jnp.any(x > 0.5, axis=-1)
    u["all_axis0"] = lambda x: jnp.all(x > -1.0, axis=0)
    u["argmax_axis_m1"] = lambda x: jnp.argmax(x, axis=-1)
    u["argmin_axis0"] = lambda x: jnp.argmin(x, axis=0)
    u["cumsum_axis_m1"] = lambda x: jnp.cumsum(x, axis=-1)
    u["cumsum_axis0"] = lambda x: jnp.cumsum(x, axis=0)
    u["sort_axis0"] = lambda x: jnp.sort(x, axis=0)
    u["sort_axis_m1"] = lambda x: jnp.sort(x, axis=-1)
    u["softmax_axis0"] = lambda x: jax.nn.softmax(x, axis=0)
    u["softmax_axis_m1"] = lambda x: jax.nn.softmax(x, axis=-1)
    u["log_softmax_axis0"] = lambda x: jax.nn.log_softmax(x, axis=0)
    u["logsumexp_axis_m1"] = lambda x: jax.nn.logsumexp(x, axis=-1)
    u["clip_pos_kw"] = lambda x: jnp.clip(x, -0.5, max=0.75)
    u["clip_kw_only_max"] = lambda x: jnp.clip(x, max=0.25)
    u["clip_none_pos_kw"] = lambda x: jnp.clip(x, None, 0.75, min=-0.5)
    u["where_scalar_else"] = lambda x: jnp.where(x > 0.25, x, -1.0)
    u["maximum_scalar"] = lambda x: jnp.maximum(x, 0.25)
    u["minimum_row"] = lambda x: jnp.minimum(x, x[0])
    u["transpose_axes"] = lambda x: jnp.transpose(x, (1, 0)) * 2.0
    u["reshape_m1"] = lambda x: jnp.reshape(x, (-1,)) + 1.0
    u["reshape_swap"] = lambda x: jnp.reshape(x, (4, 3)) * 2.0
    u["flip_axis1"] = lambda x: jnp.flip(x, axis=1)
    u["roll_axis0"] = lambda x: jnp.roll(x, 1, axis=0)
    u["tile_2_1"] = lambda x: jnp.tile(x, (2, 1))
    u["repeat_axis1"] = lambda x: jnp.repeat(x, 2, axis=1)
    u["pad_constant"] = lambda x: jnp.pad(x, ((1, 0), (0, 2)), constant_values=1.5)
    u["concat_self_axis1"] = lambda x: jnp.concatenate([x, x * 2.0], axis=1)
    u["stack_axis_m1"] = lambda x: jnp.stack([x, -x], axis=-1)
    u["take_axis1"] = lambda x: jnp.take(x, jnp.array([2, 0]), axis=1)
    u["diagonal_offset1"] = lambda x: jnp.diagonal(x, offset=1)
    u["diagonal_swapped_axes"] = lambda x: jnp.diagonal(x, offset=1, axis1=1, axis2=0)
    u["trace_offset"] = lambda x: jnp.trace(x, offset=1)
    u["tril_k1"] = lambda x: jnp.tril(x, k=1)
    u["triu_km1"] = lambda x: jnp.triu(x, k=-1)
    u["squeeze_expand"] = lambda x: jnp.squeeze(jnp.expand_dims(x, 1), axis=1) + 1.0
    u["swapaxes_kw"] = lambda x: jnp.swapaxes(x, axis1=1, axis2=0)
    u["moveaxis"] = lambda x: jnp.moveaxis(x, 0, 1)
    u["matmul_self_t"] = lambda x: jax.nn.relu(x @ x.T)
    u["einsum_ij_kj"] = lambda x: jnp.einsum("ij,kj->ik", x, x)
    u["layernorm_like"] = lambda x: (x - jnp.mean(x, axis=-1, keepdims=True)) / jnp.sqrt(jnp.var(x, axis=-1, keepdims=True) + 1.0)
    u["gelu_times_sigmoid"] = lambda x: jax.nn.gelu(x) * jax.nn.sigmoid(x)
    u["silu_chain"] = lambda x: jax.nn.silu(jnp.tanh(x) * 2.0)
    u["leaky_relu_slope"] = lambda x: jax.nn.leaky_relu(x, negative_slope=0.3)
    u["elu_alpha"] = lambda x: jax.nn.elu(x, alpha=0.5)
    u["round_decimals"] = lambda x: jnp.round(x * 3.0)
    u["floor_div_mod"] = lambda x: jnp.floor(x / 0.75) + jnp.mod(x, 0.75)
    u["sign_abs_sqrt"] = lambda x: jnp.sign(x) * jnp.sqrt(jnp.abs(x))
    u["power_scalar"] = lambda x: jnp.power(jnp.abs(x) + 0.5, 2.0)
    u["exp_log1p"] = lambda x: jnp.log1p(jnp.exp(-jnp.abs(x)))
    u["cast_int_back"] = lambda x: (x * 2.0).astype(jnp.int32).astype(jnp.float32) + x
    u["compare_select"] = lambda x: jnp.select([x > 0.5, x < -0.5], [x * 2.0, x * 3.0], default=0.25)
    u["isclose_mask_sum"] = lambda x: jnp.sum(jnp.where(jnp.isclose(x, 0.5), 1.0, 0.0), axis=-1)
    u["linspace_add"] = lambda x: x + jnp.linspace(0.0, 1.0, 4)
    u["arange_mul"] = lambda x: x * jnp.arange(4, dtype=x.dtype)
    u["outer_row_col"] = lambda x: jnp.outer(x[0], x[:, 0])
    u["split_glu"] = lambda x: jnp.split(x, 2, axis=-1)[0] * jax.nn.sigmoid(jnp.split(x, 2, axis=-1)[1])
    u["top2_values"] = lambda x: jax.lax.top_k(x, 2)[0]
    u["dynamic_slice"] = lambda x: jax.lax.dynamic_slice(x, (1, 1), (2, 2))
    u["cumsum_reverse"] = lambda x: jax.lax.cumsum(x, axis=1, reverse=True)
    u["reduce_max_axes"] = lambda x: jax.lax.reduce_max(x, axes=(1,))
    u["integer_pow"] = lambda x: jax.lax.integer_pow(x, 3)
    return u


def testcases() -> List[Dict[str, Any]]:
    out: List[Dict[str, Any]] = []
    try:
        units = _units()
    except Exception:
        return out
    for name, fn in units.items():
        out.append({"testcase": f"gen_{name}", "callable": fn, "input_shapes": [(3, 4)], "context": "verif.gen",
                    "component": name.split("_")[0], "_enable_double_precision_test_setting": False})
    return out
