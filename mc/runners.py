"""Worker-side jobs shared by the corpus-driven checks.

Process separation: *exporter* workers only ever call ``to_onnx``; *oracle*
workers never convert anything (they build the same callable, run eager JAX in
f32 and f64, and execute the stored model).  A conversion can leave a process
dirty and a warm jit cache changes what a conversion traces, so the reference
side is never computed in a process that has converted.
"""
from __future__ import annotations

import itertools
import os
import traceback
from typing import Any, Dict, List, Optional, Sequence, Tuple

import numpy as np


def warm_export() -> None:
    import logging
    logging.disable(logging.WARNING)
    import jax  # noqa: F401
    import jax2onnx  # noqa: F401
    import onnx_ir  # noqa: F401
    from mc import corpus
    corpus.params()


def warm_oracle() -> None:
    import logging
    logging.disable(logging.WARNING)
    import jax  # noqa: F401
    import onnxruntime  # noqa: F401
    from mc import corpus
    corpus.params()


# --------------------------------------------------------------------------
def export_job(p: Dict[str, Any]) -> Dict[str, Any]:
    """Export one corpus program with optional to_onnx overrides; store bytes on disk."""
    from mc import corpus
    tp = corpus.get(p["pid"])
    overrides = dict(p.get("overrides") or {})
    try:
        fn = corpus.instantiate(tp)
    except Exception as e:  # noqa: BLE001
        return {"status": "build_error", "type": type(e).__name__, "msg": str(e)[:300]}
    try:
        if p.get("transform"):
            from mc import transforms
            import jax
            from jax2onnx import to_onnx
            _s, meta, _v = corpus.input_meta(tp)
            if not transforms.is_unit(tp, meta):
                return {"status": "not_a_unit"}
            fn_t, meta_t = transforms.apply(fn, meta, p["transform"])
            kw = corpus.export_kwargs(tp)
            for k in ("input_names", "output_names", "inputs_as_nchw", "outputs_as_nchw", "input_params"):
                kw.pop(k, None)
            kw.update(overrides)
            model = to_onnx(fn_t, [jax.ShapeDtypeStruct(sh, dt) for sh, dt in meta_t], **kw)
        else:
            model = corpus.export(tp, fn, dtype_override=p.get("dtype_override"), **overrides)
    except Exception as e:  # noqa: BLE001
        return {"status": "raise", "type": type(e).__name__, "msg": str(e)[:500],
                "tb": traceback.format_exc()[-1500:]}
    data = model.SerializeToString()
    from mc import gspace as G
    from mc import walker
    et = walker.elem_types(model)
    out = {"status": "ok", "bytes": len(data), "nodes": len(model.graph.node),
           "has_loop": "Loop" in G.op_histogram(model),
           "double_places": (et.get(11, []) + et.get(15, []))[:6],
           "float_places": (et.get(1, []) + et.get(14, []))[:6],
           "out_types": [o.type.tensor_type.elem_type for o in model.graph.output],
           "digest": __import__("hashlib").sha256(data).hexdigest()[:16],
           "double": bool(overrides.get("enable_double_precision", corpus.double(tp)))}
    if p.get("out_dir"):
        path = os.path.join(p["out_dir"], p.get("name") or (_safe(p["pid"] + "|" + str(p.get("transform")) + "|" + str(p.get("dtype_override"))) + ".onnx"))
        with open(path, "wb") as f:
            f.write(data)
        out["path"] = path
    else:
        out["data"] = data
    return out


def _safe(s: str) -> str:
    import hashlib
    return hashlib.sha256(s.encode()).hexdigest()[:20]


# --------------------------------------------------------------------------
def default_binding(syms: Sequence[str]) -> Dict[str, int]:
    return {s: v for s, v in zip(syms, [2, 3, 4, 5, 6, 7])}


# Documented preconditions of library functions: inputs violating them are outside the callable's domain
# (undefined result in JAX itself), so the generator repairs the pattern instead of feeding garbage.
DOMAIN_RULES = [
    ("/searchsorted/", {0: "sorted"}),
    ("/digitize/", {1: "sorted"}),
    ("/interp/", {1: "strictly_increasing"}),
    ("/histogram/", {1: "sorted"}),
    ("/histogramdd/", {1: "sorted"}),
    ("/histogram2d/", {2: "sorted"}),
    ("/histogram_bin_edges/", {1: "sorted"}),
    ("/select_n/", {0: "case_index"}),
    ("/unique", {}),
]


def apply_domain_rules(pid: str, arrays: List[np.ndarray], tp) -> List[np.ndarray]:
    for frag, rules in DOMAIN_RULES:
        if frag not in pid:
            continue
        for idx, rule in rules.items():
            if idx >= len(arrays):
                continue
            a = arrays[idx]
            if rule in ("sorted", "strictly_increasing") and a.ndim >= 1 and a.dtype.kind in "fiu":
                desc = "decreasing" in pid
                a = np.sort(a, axis=-1)
                if rule == "strictly_increasing" or True:
                    # break ties deterministically so that left/right conventions are exercised on distinct knots
                    step = np.arange(a.shape[-1], dtype=np.float64)
                    if a.dtype.kind == "f":
                        a = (a.astype(np.float64) + step * 0.125).astype(a.dtype)
                    elif rule == "strictly_increasing":
                        a = (a.astype(np.int64) + step.astype(np.int64)).astype(a.dtype)
                if desc:
                    a = a[..., ::-1].copy()
                arrays[idx] = a
            elif rule == "case_index" and a.dtype.kind in "iu":
                n = max(len(arrays) - 1, 1)
                arrays[idx] = (np.abs(a.astype(np.int64)) % n).astype(a.dtype)
    return arrays


def gen_inputs(meta, model_inputs, binding, combo, tier) -> Optional[List[np.ndarray]]:
    """Arrays for the positional inputs, typed as the model declares them."""
    from mc import corpus, lattice
    arrs = []
    for k, ((sh, dt), (pname, vals)) in enumerate(zip(meta, combo)):
        shape = corpus.bind_shape(sh, binding)
        mdt = model_inputs[k][1] if k < len(model_inputs) else dt
        if np.dtype(dt).kind == "c" or mdt is None:
            mdt = dt  # complex arguments are packed as trailing real pairs when fed
        arrs.append(lattice.fill(shape, vals, mdt, offset=k))
    return arrs


def pattern_combos(meta, tier: str, cap: int = 64) -> Tuple[List[Tuple[Tuple[str, list], ...]], bool]:
    from mc import lattice
    per_input = []
    extents = [d for sh, _ in meta for d in sh if isinstance(d, (int, np.integer))]
    for sh, dt in meta:
        per_input.append(lattice.patterns_for(dt, tier, extents))
    if not per_input:
        return [()], False
    total = 1
    for p in per_input:
        total *= len(p)
    if total <= cap:
        return list(itertools.product(*per_input)), False
    # diagonal + each single deviation from the first pattern (covers every pattern of every input)
    combos = []
    m = max(len(p) for p in per_input)
    for i in range(m):
        combos.append(tuple(p[i % len(p)] for p in per_input))
    for k, p in enumerate(per_input):
        for j in range(1, len(p)):
            c = [q[0] for q in per_input]
            c[k] = p[j]
            combos.append(tuple(c))
    seen, out = set(), []
    for c in combos:
        key = tuple(n for n, _ in c)
        if key not in seen:
            seen.add(key)
            out.append(c)
    return out[:cap], True


def model_io(model) -> Tuple[List[Tuple[str, Any, list]], List[Tuple[str, Any, list]]]:
    import onnx
    from onnx import helper
    inits = {i.name for i in model.graph.initializer}

    def conv(vs):
        out = []
        for v in vs:
            if v.name in inits:
                continue
            tt = v.type.tensor_type
            try:
                dt = helper.tensor_dtype_to_np_dtype(tt.elem_type)
            except Exception:
                dt = None
            shape = [d.dim_value if d.HasField("dim_value") else (d.dim_param or None) for d in tt.shape.dim] \
                if tt.HasField("shape") else None
            out.append((v.name, dt, shape))
        return out
    return conv(model.graph.input), conv(model.graph.output)


def make_session(data: bytes):
    """-> (session|None, error message|None)"""
    from mc import gspace as G
    import onnxruntime as ort
    try:
        so = G._sess_opts()
        so.enable_mem_pattern = False
        return ort.InferenceSession(data, so, providers=["CPUExecutionProvider"]), None
    except Exception as e:  # noqa: BLE001
        return None, str(e)[:400]


def run_model(sess_pair, feeds: Dict[str, np.ndarray], limit: Optional[float] = None):
    """ORT; -> (engine, status, outputs|msg).  With ``limit`` the run is cancelled through
    RunOptions.terminate after that many seconds (status "terminated")."""
    import onnxruntime as ort
    sess, err = sess_pair
    if sess is None:
        return "ort", "load_error", err
    ro = None
    timer = None
    if limit is not None:
        import threading
        ro = ort.RunOptions()
        timer = threading.Timer(limit, lambda: setattr(ro, "terminate", True))
        timer.daemon = True
        timer.start()
    try:
        outs = sess.run(None, feeds, run_options=ro) if ro is not None else sess.run(None, feeds)
    except Exception as e:  # noqa: BLE001
        if ro is not None and ro.terminate:
            return "ort", "terminated", "cancelled after %.0fs" % limit
        return "ort", "run_error", str(e)[:400]
    finally:
        if timer is not None:
            timer.cancel()
    return "ort", "ok", outs


class Ref:
    """The reference side: the callable evaluated by JAX with no plugin active.
    Compiled once per x64 mode with jax.jit (same function, one XLA compile instead of one per
    primitive and shape); falls back to op-by-op eager evaluation when jit rejects the callable."""

    def __init__(self, fn, kwargs):
        self.fn, self.kwargs = fn, dict(kwargs or {})
        self._jit: Dict[bool, Any] = {}

    def __call__(self, arrays, x64: bool):
        import jax
        if self._jit.get(x64) is None:
            kw = self.kwargs
            fn = self.fn
            self._jit[x64] = jax.jit(lambda *a: fn(*a, **kw))
        if self._jit[x64] != "eager":
            st, res = eager(self._jit[x64], arrays, None, x64)
            if st == "ok":
                return st, res
            self._jit[x64] = "eager"
        return eager(self.fn, arrays, self.kwargs, x64)


def eager(fn, arrays, kwargs, x64: bool):
    """Eager JAX with no plugin active. -> ("ok", [np arrays]) | ("error", msg)"""
    import jax
    import jax.numpy as jnp
    from mc.compare import flatten_outputs
    prev = bool(jax.config.jax_enable_x64)
    if prev != x64:
        jax.config.update("jax_enable_x64", x64)
    try:
        args = []
        for a in arrays:
            a = np.asarray(a)
            if x64 and a.dtype.kind == "f":
                a = a.astype(np.float64)
            elif x64 and a.dtype.kind == "c":
                a = a.astype(np.complex128)
            args.append(jnp.asarray(a))
        kw = {}
        for k, v in (kwargs or {}).items():
            kw[k] = jnp.asarray(v) if isinstance(v, (np.ndarray, list, tuple)) else v
        with jax.default_matmul_precision("float32"):
            res = fn(*args, **kw)
        return "ok", flatten_outputs(res)
    except Exception as e:  # noqa: BLE001
        return "error", f"{type(e).__name__}: {str(e)[:300]}"
    finally:
        if prev != x64:
            jax.config.update("jax_enable_x64", prev)


def feeds_for(model_inputs, arrays, tp) -> Dict[str, np.ndarray]:
    """Positional arrays + input_params by name, NCHW-transposed where flagged."""
    params = dict(tp.get("input_params") or {})
    nchw = set(tp.get("inputs_as_nchw") or ())
    feeds: Dict[str, np.ndarray] = {}
    it = iter(enumerate(arrays))
    for name, dt, _shape in model_inputs:
        if name in params:
            v = np.asarray(params[name])
            feeds[name] = v.astype(dt) if dt is not None else v
            continue
        try:
            k, a = next(it)
        except StopIteration:
            raise ValueError(f"model has more inputs than the call has arguments (extra input {name!r})")
        if k in nchw and a.ndim == 4:
            a = np.transpose(a, (0, 3, 1, 2))
        a = np.asarray(a)
        if np.iscomplexobj(a) and dt is not None and np.dtype(dt).kind == "f":
            a = np.stack([a.real, a.imag], axis=-1)
        feeds[name] = np.asarray(a.astype(dt) if dt is not None else a, order="C")
    return feeds


def _float_avals_all_f64(jaxpr) -> bool:
    def ok(v) -> bool:
        aval = getattr(v, "aval", None)
        dt = getattr(aval, "dtype", None)
        if dt is None:
            return True
        try:
            k = np.dtype(dt).kind
        except TypeError:
            return True
        if k == "f":
            return np.dtype(dt) == np.float64
        if k == "c":
            return np.dtype(dt) == np.complex128
        return True
    for v in list(jaxpr.invars) + list(jaxpr.constvars) + list(jaxpr.outvars):
        if not ok(v):
            return False
    for eqn in jaxpr.eqns:
        for v in eqn.outvars:
            if not ok(v):
                return False
        for pv in eqn.params.values():
            inner = getattr(pv, "jaxpr", pv)
            if hasattr(inner, "eqns") and not _float_avals_all_f64(inner):
                return False
            if isinstance(pv, (tuple, list)):
                for q in pv:
                    inner = getattr(q, "jaxpr", q)
                    if hasattr(inner, "eqns") and not _float_avals_all_f64(inner):
                        return False
    return True


def _analyse(fn, tp, meta, binding, dbl: bool) -> Tuple[bool, bool]:
    """(pointwise?, all float avals float64?) of the plugin-free jaxpr traced in the variant's x64 mode."""
    import jax
    from mc import compare, corpus
    prev = bool(jax.config.jax_enable_x64)
    if prev != dbl:
        jax.config.update("jax_enable_x64", dbl)
    try:
        kw = dict(tp.get("input_params") or {})
        sds = [jax.ShapeDtypeStruct(corpus.bind_shape(sh, binding), dt) for sh, dt in meta]
        jaxpr = jax.make_jaxpr(lambda *a: fn(*a, **kw))(*sds)
        return compare.is_pointwise_jaxpr(jaxpr.jaxpr), _float_avals_all_f64(jaxpr.jaxpr)
    except Exception:
        return False, False
    finally:
        if prev != dbl:
            jax.config.update("jax_enable_x64", prev)


def _sort_rows(a: np.ndarray) -> np.ndarray:
    a = np.asarray(a)
    if np.iscomplexobj(a):
        a = np.stack([a.real, a.imag], axis=-1)
    if a.ndim == 1:
        return np.sort(a)
    if a.ndim == 2:
        return a[np.lexsort(tuple(np.round(a[:, k], 4) for k in reversed(range(a.shape[1]))))]
    return a


_PROG_CACHE: Dict[str, Dict[str, Any]] = {}
LOOP_LIMIT_S = 2.0


def _prepare(p: Dict[str, Any]) -> Dict[str, Any]:
    """Per-process cache of everything that does not depend on the input pattern."""
    import onnx
    from mc import corpus
    key = p["pid"] + "|" + p["path"] + "|" + str(p.get("transform")) + "|" + str(p.get("dtype_override"))
    c = _PROG_CACHE.get(key)
    if c is not None:
        return c
    tp = corpus.get(p["pid"])
    c = {"tp": tp, "skipped": None}
    try:
        with open(p["path"], "rb") as f:
            data = f.read()
        c["model"] = onnx.load_model_from_string(data)
        c["data"] = data
    except Exception as e:  # noqa: BLE001
        c["skipped"] = f"cannot read model: {e}"
        return c
    try:
        fn = corpus.instantiate(tp)
    except Exception as e:  # noqa: BLE001
        c["skipped"] = f"build_error {type(e).__name__}"
        return c
    specs, meta, _tc = corpus.input_meta(tp)
    if p.get("dtype_override"):
        specs, meta = corpus.override_dtypes(specs, meta, p["dtype_override"])
    if p.get("transform"):
        from mc import transforms
        try:
            fn, meta = transforms.apply(fn, meta, p["transform"])
        except Exception as e:  # noqa: BLE001
            c["skipped"] = f"transform not applicable: {type(e).__name__}"
            return c
    c.update(fn=fn, meta=meta, dbl=corpus.double(tp))
    if not corpus.random_free(fn, meta, tp):
        c["skipped"] = "random"
        return c
    c["m_in"], c["m_out"] = model_io(c["model"])
    c["binding"] = default_binding(corpus.symbols(meta))
    c["pointwise"], c["all_f64"] = _analyse(fn, tp, meta, c["binding"], c["dbl"])
    c["sess"] = make_session(data)
    from mc import gspace as G
    c["has_loop"] = "Loop" in G.op_histogram(c["model"])
    c["ref"] = Ref(fn, tp.get("input_params"))
    if len(_PROG_CACHE) > 6:
        _PROG_CACHE.pop(next(iter(_PROG_CACHE)))
    _PROG_CACHE[key] = c
    return c


def numeric_job(p: Dict[str, Any]) -> Dict[str, Any]:
    """Oracle worker: one program, every enumerated input-pattern combination."""
    from mc import corpus, compare
    tier = p.get("tier", "quick")
    out: Dict[str, Any] = {"pid": p["pid"], "cases": 0, "in_domain": 0, "ood": 0, "mismatch": [], "worst": 0.0,
                           "ort_unloadable": None, "skipped": None, "capped": False, "nontrivial": 0,
                           "ort_divergence": []}
    import time as _time
    _t0 = _time.time()
    c = _prepare(p)
    out["prep_s"] = round(_time.time() - _t0, 2)
    if c["skipped"]:
        out["skipped"] = c["skipped"]
        return out
    tp, model, fn, meta, dbl = c["tp"], c["model"], c["fn"], c["meta"], c["dbl"]
    m_in, binding, pointwise = c["m_in"], (p.get("binding") or c["binding"]), c["pointwise"]
    ref = c["ref"]
    double_budget = dbl and c["all_f64"]
    if p.get("require_all_f64") and not double_budget:
        out["skipped"] = "not all-float64 in JAX x64 mode"
        out["all_f64"] = False
        return out
    combos, capped = pattern_combos(meta, tier)
    out["capped"] = capped
    if p.get("combo") is not None:
        combos = combos[p["combo"]:p["combo"] + 1]
    pos_model_inputs = [mi for mi in m_in if mi[0] not in (tp.get("input_params") or {})]
    outnchw = set(tp.get("outputs_as_nchw") or ())
    distinct_out = set()
    for combo in combos:
        out["cases"] += 1
        names = [n for n, _ in combo]
        try:
            arrays = gen_inputs(meta, pos_model_inputs, binding, combo, tier)
            arrays = apply_domain_rules(p["pid"], arrays, tp)
        except Exception as e:  # noqa: BLE001
            out["skipped"] = f"input generation: {type(e).__name__}: {e}"[:200]
            break
        try:
            feeds = feeds_for(m_in, arrays, tp)
        except Exception as e:  # noqa: BLE001
            out["mismatch"].append({"patterns": names, "class": "interface", "what": str(e)[:300]})
            continue
        pre = None
        if c.get("has_loop"):
            # data-dependent loops may not terminate for some lattice inputs: run the model first under a
            # watchdog; a cancelled run is counted (unverified) and JAX is not asked to loop forever
            pre = run_model(c["sess"], feeds, limit=LOOP_LIMIT_S)
            if pre[1] == "terminated":
                out["nonterminating"] = out.get("nonterminating", 0) + 1
                continue
        s32, j32 = ref(arrays, dbl)
        if s32 != "ok":
            out["ood"] += 1
            continue
        if not all(np.all(np.isfinite(o)) for o in j32 if o.dtype.kind in "fc"):
            out["ood"] += 1
            continue
        out["in_domain"] += 1
        eng, st, res = pre if pre is not None else run_model(c["sess"], feeds)
        if st == "load_error":
            out["ort_unloadable"] = res
            break
        if st == "run_error" and "No corresponding Numpy type" in str(res):
            from mc import gspace as G
            s_ref, o_ref = G.ref_run(model, feeds)
            if s_ref != "ok":
                out["skipped"] = "ORT python binding cannot return this dtype; reference evaluator unavailable"
                break
            st, res = "ok", o_ref
        if st == "run_error":
            out["mismatch"].append({"patterns": names, "class": "ort_run_error", "what": res[:300]})
            continue
        outs = []
        for k, o in enumerate(res):
            o = np.asarray(o)
            if k in outnchw and o.ndim == 4:
                o = np.transpose(o, (0, 2, 3, 1))
            outs.append(o)
        # cheap strict pass first (no f64 reference): <= 8 ulp32 of JAX's own result
        r64 = None
        if "/roots/" in p["pid"]:
            # polynomial roots are an unordered set: compare in a canonical order
            outs = [_sort_rows(o) for o in outs]
            j32 = [_sort_rows(o) for o in j32]
        diff, worst = compare.compare_outputs(outs, j32, None, pointwise=pointwise, double=double_budget, k=2.0)
        if diff is not None and not double_budget:
            s64, r = ref(arrays, True)
            if s64 == "ok" and "/roots/" in p["pid"]:
                r = [_sort_rows(o) for o in r]
            if s64 == "ok" and len(r) == len(j32):
                if not all(np.all(np.isfinite(o)) for o in r if o.dtype.kind in "fc"):
                    out["in_domain"] -= 1
                    out["ood"] += 1  # not finite in float64: outside the domain
                    continue
                r64 = r
            diff, worst = compare.compare_outputs(outs, j32, r64, pointwise=pointwise, double=False)
        if np.isfinite(worst):
            out["worst"] = max(out["worst"], worst)
        distinct_out.add(hash(tuple(o.tobytes()[:64] for o in outs)))
        if diff is not None:
            cls = ("shape" if " shape" in diff.split(":")[0] else "count" if diff.startswith("output count") else
                   "dtype" if "dtype class" in diff else "nonfinite" if "non-finite" in diff else "value")
            # second opinion: the ONNX reference evaluator
            from mc import gspace as G
            s_ref, o_ref = G.ref_run(model, feeds)
            if s_ref == "ok":
                outs_ref = []
                for k, o in enumerate(o_ref):
                    if k in outnchw and o.ndim == 4:
                        o = np.transpose(o, (0, 2, 3, 1))
                    outs_ref.append(o)
                d2, _ = compare.compare_outputs(outs_ref, j32, r64, pointwise=pointwise, double=double_budget)
                if d2 is None:
                    out["ort_divergence"].append({"patterns": names, "what": diff[:200]})
                    continue
            out["mismatch"].append({"patterns": names, "class": cls, "what": diff[:400],
                                    "ratio": (float(worst) if np.isfinite(worst) else None),
                                    "ref": "agrees-with-ort" if s_ref == "ok" else f"unavailable: {str(o_ref)[:80]}"})
    out["nontrivial"] = 1 if len(distinct_out) > 1 else 0
    out["pointwise"] = pointwise
    out["all_f64"] = bool(c["all_f64"])
    out["elapsed_s"] = round(_time.time() - _t0, 2)
    return out
