"""CLI: ``check <ID> [--tier quick|thorough]`` and ``check replay <file>``."""
from __future__ import annotations

import argparse
import importlib
import json
import os
import sys
import traceback


def main(argv=None) -> int:
    argv = list(sys.argv[1:] if argv is None else argv)
    if argv and argv[0] == "replay":
        path = argv[1]
        with open(path) as f:
            rep = json.load(f)
        mod = importlib.import_module("checks." + rep["property"].lower())
        out = mod.replay(rep)
        print(json.dumps(out, indent=1, default=repr))
        return 1 if out.get("violation") else 0
    ap = argparse.ArgumentParser()
    ap.add_argument("prop")
    ap.add_argument("--tier", default=os.environ.get("VERIF_TIER", "quick"),
                    choices=["quick", "thorough"])
    a = ap.parse_args(argv)
    mod = importlib.import_module("checks." + a.prop.lower())
    try:
        return int(mod.main(a.tier))
    except SystemExit:
        raise
    except BaseException:
        traceback.print_exc()
        print(f"HARNESS-ERROR: property={a.prop} (exit 2, not a violation)")
        return 2


if __name__ == "__main__":
    sys.exit(main())
