"""Numeric agreement oracle: ORT (triaged by the ONNX reference evaluator) vs eager JAX.

Budget for floats: K * max(|j32 - r64|, ulp32(r64))  -- "the error JAX's own
single-precision evaluation already carries" -- per element for pointwise
programs, in the infinity norm otherwise.  Integers / booleans bit-exact.
"""
from __future__ import annotations

from typing import Any, Dict, List, Optional, Sequence, Tuple

import numpy as np

from mc.lattice import ulp32, ulp64

K = 128.0
REL64 = 1e-9  # double-precision exports: relative to tensor scale (an f32 detour costs ~1e-7)

POINTWISE_PRIMS = {
    "add", "sub", "mul", "div", "neg", "abs", "sign", "floor", "ceil", "round", "exp", "exp2", "log", "log1p", "expm1",
    "sqrt", "rsqrt", "cbrt", "tanh", "tan", "sin", "cos", "asin", "acos", "atan", "atan2", "sinh", "cosh", "asinh",
    "acosh", "atanh", "logistic", "erf", "erfc", "erf_inv", "max", "min", "pow", "integer_pow", "square", "rem",
    "select_n", "convert_element_type", "broadcast_in_dim", "reshape", "squeeze", "expand_dims", "eq", "ne", "lt",
    "le", "gt", "ge", "and", "or", "not", "xor", "is_finite", "clamp", "nextafter", "stop_gradient", "copy",
    "copy_p", "real", "imag", "transpose", "pjit", "jit", "custom_jvp_call", "custom_vjp_call", "iota",
    "shift_left", "shift_right_logical", "shift_right_arithmetic", "population_count", "sign", "reciprocal",
}


def is_pointwise_jaxpr(jaxpr) -> bool:
    try:
        for eqn in jaxpr.eqns:
            name = eqn.primitive.name
            if name not in POINTWISE_PRIMS:
                return False
            for v in eqn.params.values():
                inner = getattr(v, "jaxpr", None)
                if inner is not None and hasattr(inner, "eqns"):
                    if not is_pointwise_jaxpr(inner):
                        return False
                elif hasattr(v, "eqns"):
                    if not is_pointwise_jaxpr(v):
                        return False
    except Exception:
        return False
    return True


def flatten_outputs(res) -> List[np.ndarray]:
    import jax
    host = jax.device_get(res)
    flat, _ = jax.tree_util.tree_flatten(host)
    return [np.asarray(v) for v in flat]


def _plain(a: np.ndarray) -> np.ndarray:
    """ml_dtypes floats (bfloat16, float8...) have dtype.kind 'V': widen exactly to float32."""
    if a.dtype.kind == "V" or (a.dtype.kind not in "biufc" and "float" in str(a.dtype)):
        try:
            return a.astype(np.float32)
        except Exception:
            return a
    return a


def _as_pair(a: np.ndarray) -> np.ndarray:
    """complex -> trailing pair of reals"""
    if np.iscomplexobj(a):
        return np.stack([a.real, a.imag], axis=-1)
    return a


def compare_outputs(ort_outs: Sequence[np.ndarray], j_outs: Sequence[np.ndarray],
                    r64_outs: Optional[Sequence[np.ndarray]], *, pointwise: bool, double: bool,
                    k: float = K) -> Tuple[Optional[str], float]:
    """-> (description of the first disagreement or None, worst ratio observed)."""
    worst = 0.0
    if len(ort_outs) != len(j_outs):
        return f"output count: model {len(ort_outs)} vs JAX {len(j_outs)}", float("inf")
    for i, (o, j) in enumerate(zip(ort_outs, j_outs)):
        o = _plain(np.asarray(o))
        j = _plain(np.asarray(j))
        jj = _as_pair(j)
        if o.shape != jj.shape:
            if np.iscomplexobj(j) and np.iscomplexobj(o) and o.shape == j.shape:
                jj = j
            else:
                return f"output {i} shape: model {o.shape} vs JAX {jj.shape}", float("inf")
        jk, ok_ = jj.dtype.kind, o.dtype.kind
        if jk == "b" or jk in "iu":
            if ok_ in "fc":
                return f"output {i} dtype class: model {o.dtype} vs JAX {j.dtype}", float("inf")
            if jk == "b" and ok_ != "b":
                return f"output {i} dtype class: model {o.dtype} vs JAX bool", float("inf")
            if not np.array_equal(o.astype(np.int64) if ok_ != "b" else o,
                                  jj.astype(np.int64) if jk != "b" else jj):
                bad = np.argwhere(np.asarray(o != jj))
                first = tuple(bad[0]) if len(bad) else ()
                return (f"output {i} integer/bool values differ at {first}: model {o[first] if o.shape else o} "
                        f"vs JAX {jj[first] if jj.shape else jj} ({len(bad)} elements)"), float("inf")
            continue
        if ok_ not in "fc":
            return f"output {i} dtype class: model {o.dtype} vs JAX {j.dtype}", float("inf")
        o64 = _as_pair(o).astype(np.float64) if np.iscomplexobj(o) else o.astype(np.float64)
        j64 = (_as_pair(j) if np.iscomplexobj(j) else jj).astype(np.float64)
        if o64.shape != j64.shape:
            return f"output {i} shape: model {o64.shape} vs JAX {j64.shape}", float("inf")
        if not np.all(np.isfinite(j64)):
            continue  # out of domain for this output (caller normally filters)
        if not np.all(np.isfinite(o64)):
            n = int((~np.isfinite(o64)).sum())
            idx = tuple(np.argwhere(~np.isfinite(o64))[0])
            return f"output {i}: model yields non-finite {o64[idx]} at {idx} where JAX yields {j64[idx]} ({n} elements)", float("inf")
        if double:
            scale = max(float(np.max(np.abs(j64))) if j64.size else 0.0, 1e-300)
            err = np.abs(o64 - j64)
            allowed = REL64 * np.maximum(np.abs(j64), scale if not pointwise else np.abs(j64)) + 1e-15 * max(1.0, scale)
            ratio = float(np.max(err / allowed)) if err.size else 0.0
            worst = max(worst, ratio)
            if ratio > 1.0:
                idx = tuple(np.unravel_index(int(np.argmax(err / allowed)), err.shape)) if err.shape else ()
                return (f"output {i} (double): |model-JAX|={err[idx]:.3e} at {idx}, model {o64[idx]!r} vs JAX {j64[idx]!r} "
                        f"(allowed {allowed[idx] if allowed.shape else allowed:.3e})"), ratio
            continue
        r = None
        if r64_outs is not None and i < len(r64_outs):
            r = np.asarray(r64_outs[i])
            r = (_as_pair(r) if np.iscomplexobj(r) else r).astype(np.float64)
            if r.shape != j64.shape or not np.all(np.isfinite(r)):
                r = None
        if r is not None:
            num = np.abs(o64 - r)
            den_el = np.maximum(np.abs(j64 - r), ulp32(r))
        else:
            num = np.abs(o64 - j64)
            den_el = ulp32(j64) * 4.0
        if pointwise:
            ratio_el = num / den_el
            ratio = float(np.max(ratio_el)) if ratio_el.size else 0.0
            idx = tuple(np.unravel_index(int(np.argmax(ratio_el)), ratio_el.shape)) if ratio_el.shape and ratio_el.size else ()
        else:
            ref = r if r is not None else j64
            scale_ulp = float(ulp32(np.max(np.abs(ref)))) if ref.size else 1e-45
            den = max(float(np.max(den_el)) if den_el.size else 0.0, scale_ulp)
            ratio = (float(np.max(num)) / den) if num.size else 0.0
            idx = tuple(np.unravel_index(int(np.argmax(num)), num.shape)) if num.shape and num.size else ()
        worst = max(worst, ratio)
        if ratio > k:
            return (f"output {i}: model {o64[idx] if o64.shape else o64!r} vs JAX f32 {j64[idx] if j64.shape else j64!r}"
                    f"{'' if r is None else f' (f64 reference {r[idx] if r.shape else r!r})'} at {idx}; "
                    f"error/budget-unit = {ratio:.3g} > K={k:g}"), ratio
    return None, worst
