"""Value lattices: deterministic, enumerated input patterns (never random draws).

A *pattern* fills a tensor cyclically from a short list of values with a stride
coprime to the tensor's dims, so neighbouring elements along every axis differ.
"""
from __future__ import annotations

import math
from typing import Dict, List, Sequence, Tuple

import numpy as np

FLOAT_PATTERNS: Dict[str, List[float]] = {
    "mixed_small": [0.3, -0.7, 1.2, -0.1, 0.9, -1.6, 0.05, 2.3, -0.45, 0.6, -2.1],
    "half_integers": [0.5, -0.5, 1.5, -1.5, 2.5, -2.5, 3.5, -3.5, 0.0, 1.0, -2.0, 4.5, -4.5],
    "integers": [0.0, 1.0, -1.0, 2.0, -2.0, 3.0, -3.0, 4.0, -4.0, 7.0, -7.0],
    "positive": [0.25, 0.5, 0.75, 1.0, 1.5, 2.0, 2.5, 3.5, 7.5, 0.1, 5.0],
    "negative": [-0.25, -0.5, -0.75, -1.0, -1.5, -2.0, -2.5, -3.5, -7.5, -0.1, -5.0],
    "unit_interval": [0.0, 0.1, 0.25, 0.5, 0.75, 0.9, 1.0, 0.33, 0.66, 0.01, 0.99],
    "large": [20.0, -20.0, 88.0, -88.0, 1e3, -1e3, 1e6, -1e6, 50.0, -30.0, 100.0],
    "tiny": [1e-6, -1e-6, 1e-30, -1e-30, 5e-9, -5e-9, 1e-40, -1e-40, 0.0, 1e-20, -1e-12],
    "zeros": [0.0, -0.0, 0.0, 0.0, -0.0],
    "huge": [3e38, -3e38, 1e30, -1e30, 1e20, -1e20, 3e38, 1e38, -1e38],
}
# values whose float64 mantissa is not float32-representable: any hidden f32 round trip shows as ~1e-8 relative error
FLOAT_PATTERNS["f64_mantissa"] = [1.0 + 2.0 ** -40, -(1.0 + 2.0 ** -35), 0.1, 1.0 / 3.0, -2.718281828459045, 1e-3 + 1e-15,
                                  0.7 + 2.0 ** -45, -0.3333333333333333, 1.9999999999999996, 0.5 + 2.0 ** -50, 3.141592653589793]
# several exact zeros next to non-zeros in every reduced slice (derivative rules of products, masked reductions)
FLOAT_PATTERNS["two_zeros"] = [0.0, 1.5, 0.0, -2.0, 0.5, 0.0, 3.0, 0.0, -0.5]
QUICK_FLOAT = ("mixed_small", "half_integers", "zeros")
ALL_FLOAT = tuple(FLOAT_PATTERNS)  # evaluated before f64_mantissa is added below? no: see patterns_for

INT_PATTERNS: Dict[str, List[int]] = {
    "small_nonneg": [0, 1, 2, 3, 4, 1, 0, 2],
    "signed": [-2, -1, 0, 1, 2, 3, -3, 5, -9, 9],
    "edge": [0, -1, 1, 2, -2],  # extended with extents of the program at build time
    "zeros": [0, 0, 0],
    # no zero anywhere: integer division / remainder by zero aborts a whole ORT run and would mask every other element
    "signed_nonzero": [-2, -1, 1, 2, 3, -3, 5, -9, 9, -7, 4],
    "extreme": [2**31 - 1, -(2**31), 0, 1, -1],
}
QUICK_INT = ("small_nonneg", "signed", "signed_nonzero", "edge", "zeros")
ALL_INT = tuple(INT_PATTERNS)

BOOL_PATTERNS = {"all_false": [False], "all_true": [True], "alternating": [True, False, False, True, True]}


def _stride(n: int, plen: int) -> int:
    for s in (7, 5, 3, 11, 13, 1):
        if math.gcd(s, plen) == 1:
            return s
    return 1


def fill(shape: Sequence[int], values: Sequence, dtype, offset: int = 0) -> np.ndarray:
    n = int(np.prod(shape)) if len(shape) else 1
    vals = list(values)
    s = _stride(n, len(vals))
    idx = (np.arange(n) * s + offset) % len(vals)
    with np.errstate(all="ignore"):
        arr = np.asarray(vals, dtype=np.float64 if np.dtype(dtype).kind in "fc" else object)[idx]
    dt = np.dtype(dtype)
    if dt.kind in "iu":
        info = np.iinfo(dt)
        arr = np.array([min(max(int(v), info.min), info.max) for v in arr], dtype=dt)
    elif dt.kind == "b":
        arr = np.array([bool(v) for v in arr], dtype=dt)
    elif dt.kind == "c":
        re = np.asarray(arr, dtype=np.float64)
        arr = (re + 1j * np.roll(re, 1)).astype(dt)
    else:
        with np.errstate(all="ignore"):
            arr = np.asarray(arr, dtype=np.float64).astype(dt)
    return arr.reshape(tuple(shape))


def patterns_for(dtype, tier: str, extents: Sequence[int] = ()) -> List[Tuple[str, List]]:
    dt = np.dtype(dtype)
    if dt.kind == "b":
        return list(BOOL_PATTERNS.items())[-1:] if tier == "c04" else list(BOOL_PATTERNS.items())
    if dt.kind in "iu":
        names = ("small_nonneg",) if tier == "c04" else QUICK_INT if tier in ("quick", "c09") else ALL_INT
        out = []
        for nm in names:
            vals = list(INT_PATTERNS[nm])
            if nm == "edge":
                for n in sorted(set(int(e) for e in extents if isinstance(e, (int, np.integer)) and 0 < e < 10**6))[:4]:
                    vals += [n - 1, n, n + 1, -n, -n - 1]
            if dt.kind == "u":
                vals = [abs(v) for v in vals]
            out.append((nm, vals))
        return out
    if tier == "c09":
        names = ("f64_mantissa", "mixed_small")
    elif tier == "c04":
        names = ("integers",)
    elif tier == "c10":
        names = ("mixed_small", "two_zeros", "half_integers")
    else:
        names = QUICK_FLOAT if tier == "quick" else tuple(n for n in ALL_FLOAT if n not in ("f64_mantissa",))
    return [(nm, FLOAT_PATTERNS[nm]) for nm in names]


def ulp32(x: np.ndarray) -> np.ndarray:
    x = np.abs(np.asarray(x, dtype=np.float64))
    x32 = np.minimum(x, 3.0e38).astype(np.float32)
    return np.maximum(np.spacing(x32).astype(np.float64), 1.4e-45)


def ulp64(x: np.ndarray) -> np.ndarray:
    x = np.abs(np.asarray(x, dtype=np.float64))
    return np.maximum(np.spacing(np.minimum(x, 1e308)), 5e-324)
