"""dev helper: fold 'beyond-known' replays of a property into the cases of the existing known findings (after a
deliberate change of the enumeration, reviewed by hand)."""
import json, glob, sys
prop = sys.argv[1]
kf = json.load(open('/verif/known_findings.json'))
idx = {(f['property'], f['key']): f for f in kf['findings']}
new = ext = 0
for f in glob.glob(f'/verif/replays/{prop}-*.json'):
    r = json.load(open(f)); key = r['key']
    if '|beyond-known:' in key:
        base = key.split('|beyond-known:')[0]; e = idx.get((prop, base))
        if e is not None and r.get('cases'):
            e['cases'] = sorted(set(e.get('cases') or []) | set(r['cases'])); ext += 1
    else:
        print('NEW', key, r['what'][:160]); new += 1
json.dump(kf, open('/verif/known_findings.json', 'w'), indent=1)
print('extended', ext, 'new', new)
