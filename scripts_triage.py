"""dev helper: group replay files of a property by failure class"""
import json, glob, collections, re, sys, os
prop = sys.argv[1]
c = collections.Counter(); ex = {}
for f in glob.glob(f'/verif/replays/{prop}-*.json'):
    r = json.load(open(f))
    w = r['what']
    w2 = re.sub(r'\[[^\]]*\] vs \[[^\]]*\]', '[..]', w)
    w2 = re.sub(r'\d+', '#', w2)[:int(sys.argv[2]) if len(sys.argv) > 2 else 160]
    k = w2
    c[k] += 1; ex.setdefault(k, (r['key'], f))
for k, n in c.most_common(40): print(n, k, '\n      ', ex[k][0][:200], ex[k][1])
