"""dev helper: apply textual mutants to /repo, run a check, restore. usage: scripts_mut.py CHECK file 'old' 'new'"""
import subprocess, sys
def run(check, f, a, b, tier='quick'):
    orig = open(f).read()
    assert a in orig, 'pattern not found'
    open(f, 'w').write(orig.replace(a, b, 1))
    try:
        r = subprocess.run(['/verif/check', check, '--tier', tier], capture_output=True, text=True)
    finally:
        open(f, 'w').write(orig)
    v = [l for l in r.stdout.splitlines() if l.startswith('VIOLATION')]
    d = [l for l in r.stdout.splitlines() if l.startswith('  detail')]
    print('exit', r.returncode, 'violations', len(v)); print('\n'.join(d[:3])); print(r.stdout.splitlines()[-1] if r.stdout else r.stderr[-500:])
    return r
if __name__ == '__main__':
    run(*sys.argv[1:5])
