"""dev helper: compare a junit xml with BASELINE.stable_pass. usage: scripts_baseline.py junit.xml"""
import json, sys, xml.etree.ElementTree as ET
base = json.load(open('/root/.vp/BASELINE.json'))
stable = set(base['stable_pass'])
root = ET.parse(sys.argv[1]).getroot()
res = {}
for tc in root.iter('testcase'):
    name = f"{tc.get('classname')}::{tc.get('name')}"
    bad = any(ch.tag in ('failure', 'error', 'skipped') for ch in tc)
    res[name] = not bad
missing = [s for s in stable if s not in res]
failed = [s for s in stable if s in res and not res[s]]
print('stable', len(stable), 'ran', len(res), 'passed total', sum(res.values()), 'missing', len(missing), 'failed', len(failed))
for s in (missing + failed)[:20]: print('  ', s)
