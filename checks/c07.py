"""C07 - ONNX function boundaries are transparent; bodies are shared only when equal.

Enumerated: (1) a three-level module tree Outer(Mid(Inner)) with EVERY placement of {undecorated, @onnx_function,
@onnx_function(unique=True)} per level (27) for nnx-module targets and for plain-function targets; (2) ALL ordered
pairs (A,B) and the triple (A,B,A) of call sites drawn from the variation lattice {same instance, new instance with
equal parameters, different weights, different static bool / float / str / callable field, different static keyword
argument, traced keyword argument, keyword fed by an input_param, different input shape, different input dtype,
symbolic vs concrete batch} x {shared, unique} decoration.  Every generated target gets a fresh qualified name.
Oracle: ORT(decorated) == ORT(undecorated) == eager JAX bit-exactly (exact arithmetic), the call sites' results
returned separately so wrong sharing is observable; every call node resolves to a definition with equal arity in
an imported domain.
"""
from __future__ import annotations

import itertools
import sys
from typing import Any, Callable, Dict, List, Optional, Tuple

import numpy as np

from mc.pool import Pool, is_worker_failure
from mc.report import Run

PROP = "C07"
_CTR = [0]
VARIATIONS = ["same_instance", "new_equal", "diff_weights", "diff_flag", "diff_scale", "diff_act_str", "diff_act_fn",
              "diff_kwarg_static", "kwarg_traced", "kwarg_input_param", "diff_shape", "diff_dtype", "diff_rows"]
DECOS = [None, "fn", "unique"]


def _fresh_name(prefix: str) -> str:
    _CTR[0] += 1
    return f"{prefix}{_CTR[0]}"


def _decorate(obj, deco: Optional[str]):
    from jax2onnx import onnx_function
    if deco == "fn":
        return onnx_function(obj)
    if deco == "unique":
        return onnx_function(obj, unique=True)
    return obj


def _make_block_class(deco: Optional[str]):
    """A fresh nnx.Module subclass (module attribute of this module) with static fields and a kwarg."""
    import jax.numpy as jnp
    from flax import nnx
    name = _fresh_name("Blk")

    def __init__(self, w, flag=True, scale=2.0, act="relu"):
        self.w = nnx.Param(jnp.asarray(w))
        self.flag = flag
        self.scale = scale
        self.act = act

    def __call__(self, x, k=1.0):
        y = (x.astype(jnp.float32) @ self.w.value) * self.scale
        if callable(self.act):
            y = self.act(y)
        elif self.act == "relu":
            y = jnp.maximum(y, 0.0)
        elif self.act == "negabs":
            y = -jnp.abs(y)
        y = y + 1.0 if self.flag else y - 1.0
        return y * k

    cls = type(name, (nnx.Module,), {"__init__": __init__, "__call__": __call__, "__module__": __name__, "__qualname__": name})
    setattr(sys.modules[__name__], name, cls)
    return _decorate(cls, deco)


W0 = (np.arange(9, dtype=np.float32).reshape(3, 3) - 4.0) * 0.5
W1 = (np.arange(9, dtype=np.float32).reshape(3, 3) % 3) - 1.0


def _x(shape=(2, 3), k=0, dtype=np.float32):
    n = int(np.prod(shape))
    return ((np.arange(n, dtype=np.float64) * (1.5 if k == 0 else -0.5) - 2.0 + k).reshape(shape)).astype(dtype)


def _site(cls, variation: str, base_inst):
    """-> (instance, call(x, **dyn) callable taking the site's input, input spec, input array, extra: dict)"""
    import jax.numpy as jnp
    inst = base_inst
    kw: Dict[str, Any] = {}
    shape, dtype = (2, 3), np.float32
    extra: Dict[str, Any] = {}
    if variation == "new_equal":
        inst = cls(W0)
    elif variation == "diff_weights":
        inst = cls(W1)
    elif variation == "diff_flag":
        inst = cls(W0, flag=False)
    elif variation == "diff_scale":
        inst = cls(W0, scale=0.5)
    elif variation == "diff_act_str":
        inst = cls(W0, act="negabs")
    elif variation == "diff_act_fn":
        inst = cls(W0, act=lambda y: jnp.minimum(y, 1.0))
    elif variation == "diff_kwarg_static":
        kw = {"k": 3.0}
    elif variation == "kwarg_traced":
        extra["traced_k"] = True
    elif variation == "kwarg_input_param":
        extra["param_k"] = True
    elif variation == "diff_shape":
        shape = (4, 3)
    elif variation == "diff_rows":
        shape = (1, 3)
    elif variation == "diff_dtype":
        dtype = np.int32
    return inst, kw, shape, dtype, extra


def job_pair(p: Dict[str, Any]) -> Dict[str, Any]:
    """Program returning the results of call sites separately; decorated vs undecorated vs eager JAX."""
    import hashlib
    import jax
    import jax.numpy as jnp
    from jax2onnx import to_onnx
    from mc import gspace as G, walker
    seq = p["sites"]  # e.g. ["A", "diff_flag", "A"]
    res: Dict[str, Any] = {"status": "ok", "bad": []}
    models = {}
    expected = None
    for deco in (None, p["deco"]):
        cls = _make_block_class(deco)
        base = cls(W0)
        sites = []
        specs: List[Any] = []
        arrays: List[np.ndarray] = []
        params: Dict[str, Any] = {}
        for idx, v in enumerate(seq):
            inst, kw, shape, dtype, extra = _site(cls, "same_instance" if v == "A" else v, base)
            slot = len(specs)
            specs.append(jax.ShapeDtypeStruct(shape, dtype))
            arrays.append(_x(shape, idx, dtype))
            tk = None
            if extra.get("traced_k"):
                tk = len(specs)
                specs.append(jax.ShapeDtypeStruct((), np.float32))
                arrays.append(np.float32(2.0))
            sites.append((inst, kw, slot, tk, bool(extra.get("param_k"))))
            if extra.get("param_k"):
                params["kp"] = np.float32(4.0)

        def fn(*xs, kp=None, _sites=sites):
            outs = []
            for inst, kw, slot, tk, use_p in _sites:
                kk = dict(kw)
                if tk is not None:
                    kk["k"] = xs[tk]
                if use_p:
                    kk["k"] = kp
                outs.append(inst(xs[slot], **kk))
            return tuple(outs)

        call_kw = {"kp": jnp.asarray(params["kp"])} if params else {}
        try:
            exp = [np.asarray(v) for v in jax.tree_util.tree_leaves(jax.device_get(fn(*[jnp.asarray(a) for a in arrays], **call_kw)))]
        except Exception as e:  # noqa: BLE001
            return {"status": "jax_rejects", "msg": f"{type(e).__name__}: {str(e)[:120]}"}
        if expected is None:
            expected = exp
        try:
            m = to_onnx(fn if params else (lambda *xs, _f=fn: _f(*xs)), specs, input_params=(params or None))
        except Exception as e:  # noqa: BLE001
            if deco is None:
                return {"status": "undecorated_refused", "msg": f"{type(e).__name__}: {str(e)[:150]}"}
            return {"status": "refused", "type": type(e).__name__, "msg": str(e)[:150]}
        models[deco] = m
        names = [i.name for i in m.graph.input]
        feed = {}
        it = iter(arrays)
        for n in names:
            if n in params:
                feed[n] = np.asarray(params[n])
            else:
                feed[n] = np.asarray(next(it))
        st, out = G.ort_run(m, feed)
        tag = "undecorated" if deco is None else f"@onnx_function({'unique' if deco == 'unique' else ''})"
        if st != "ok":
            res["bad"].append(f"{tag}: model {st}: {str(out)[:150]}")
            continue
        if len(out) != len(exp):
            res["bad"].append(f"{tag}: {len(out)} outputs vs {len(exp)}")
            continue
        for k, (o, e) in enumerate(zip(out, exp)):
            o = np.asarray(o)
            if o.shape != e.shape or not np.array_equal(o.astype(np.float64), e.astype(np.float64)):
                res["bad"].append(f"{tag}: call site {k} ({seq[k]}) returns {o.reshape(-1)[:4]} (shape {o.shape}) vs JAX {e.reshape(-1)[:4]} (shape {e.shape})")
                break
        if deco is not None:
            probs = walker.walk_functions(m) + walker.walk_scopes(m)
            if probs:
                res["bad"].append(f"{tag}: {probs[0][:200]}")
            calls = [n for _w, n in walker.iter_all_nodes(m) if n.domain not in ("", "ai.onnx")]
            res["functions"] = len(m.functions)
            res["call_nodes"] = len(calls)
            res["digest"] = hashlib.sha256(m.SerializeToString()).hexdigest()[:14]
    return res


def job_tree(p: Dict[str, Any]) -> Dict[str, Any]:
    """Outer(Mid(Inner)) with one decoration per level; nnx modules or plain functions."""
    import hashlib
    import jax
    import jax.numpy as jnp
    from flax import nnx
    from jax2onnx import to_onnx
    from mc import gspace as G, walker, grammars
    decos = p["decos"]  # (outer, mid, inner)
    kind = p["kind"]
    res: Dict[str, Any] = {"status": "ok", "bad": []}

    def build(decos):
        if kind == "function":
            def mk(f, d):
                if d is None:
                    return f
                return grammars._fresh_fn(f, d == "unique")
            inner = mk(lambda y: jnp.maximum(y * 2.0 - 1.0, 0.0), decos[2])
            mid = mk(lambda y: inner(y) + inner(y * 0.5) - 1.0, decos[1])
            outer = mk(lambda y: mid(y) * 2.0 + mid(y - 1.0), decos[0])
            return lambda x: outer(x) + 0.5
        names = [_fresh_name(n) for n in ("TInner", "TMid", "TOuter")]

        def inner_init(self):
            self.w = nnx.Param(jnp.asarray(W0))

        def inner_call(self, x):
            return jnp.maximum(x @ self.w.value - 1.0, 0.0)
        Inner = type(names[0], (nnx.Module,), {"__init__": inner_init, "__call__": inner_call, "__module__": __name__, "__qualname__": names[0]})
        setattr(sys.modules[__name__], names[0], Inner)
        Inner = _decorate(Inner, decos[2])

        def mid_init(self):
            self.a = Inner()
            self.b = Inner()

        def mid_call(self, x):
            return self.a(x) + self.b(x * 0.5) - 1.0
        Mid = type(names[1], (nnx.Module,), {"__init__": mid_init, "__call__": mid_call, "__module__": __name__, "__qualname__": names[1]})
        setattr(sys.modules[__name__], names[1], Mid)
        Mid = _decorate(Mid, decos[1])

        def outer_init(self):
            self.m = Mid()

        def outer_call(self, x):
            return self.m(x) * 2.0 + self.m(x - 1.0)
        Outer = type(names[2], (nnx.Module,), {"__init__": outer_init, "__call__": outer_call, "__module__": __name__, "__qualname__": names[2]})
        setattr(sys.modules[__name__], names[2], Outer)
        Outer = _decorate(Outer, decos[0])
        o = Outer()
        return lambda x: o(x) + 0.5

    xs = [_x((2, 3), 0), _x((2, 3), 1)]
    outs = {}
    for tag, dd in (("undecorated", (None, None, None)), ("decorated", tuple(decos))):
        fn = build(dd)
        exp = [np.asarray(fn(jnp.asarray(x))) for x in xs]
        try:
            m = to_onnx(fn, [("B", 3)] if p.get("symbolic") else [(2, 3)])
        except Exception as e:  # noqa: BLE001
            return {"status": "refused" if tag == "decorated" else "undecorated_refused", "type": type(e).__name__, "msg": str(e)[:150]}
        nm = m.graph.input[0].name
        for x, e in zip(xs, exp):
            st, out = G.ort_run(m, {nm: x})
            if st != "ok":
                res["bad"].append(f"{tag}: model {st}: {str(out)[:150]}")
                break
            o = np.asarray(out[0])
            if o.shape != e.shape or not np.array_equal(o, e):
                res["bad"].append(f"{tag}: model {o.reshape(-1)[:4]} vs JAX {e.reshape(-1)[:4]}")
                break
        if tag == "decorated":
            probs = walker.walk_functions(m) + walker.walk_scopes(m)
            if probs:
                res["bad"].append(f"decorated: {probs[0][:200]}")
            res["functions"] = len(m.functions)
            res["digest"] = hashlib.sha256(m.SerializeToString()).hexdigest()[:14]
    return res


def main(tier: str) -> int:
    run = Run(PROP, tier)
    from checks.c15 import _warm  # noqa: F401
    run.cov["rule"] = ("(1) 27 decoration placements on a 3-level tree x {nnx module, plain function} x {concrete, symbolic}; "
                       "(2) all ordered pairs (A,v), (v,A) and triples (A,v,A) over 13 call-site variations x {shared, unique}. "
                       "state = exported model digest; transition = one export + execution; non-trivial = export that "
                       "contains at least one ONNX function definition.")
    run.assumptions += ["eager JAX evaluated before conversion in the same worker is the reference (exact arithmetic)"]
    jobs_tree = [{"decos": list(d), "kind": k, "symbolic": s} for d in itertools.product(DECOS, repeat=3) if any(d)
                 for k in ("nnx", "function") for s in ((False, True) if tier == "thorough" else (False,))]
    jobs_pair = []
    for v in VARIATIONS:
        for deco in ("fn", "unique"):
            jobs_pair.append({"sites": ["A", v], "deco": deco})
            jobs_pair.append({"sites": [v, "A"], "deco": deco})
            jobs_pair.append({"sites": ["A", v, "A"], "deco": deco})
    if tier == "thorough":
        for v, w in itertools.permutations(VARIATIONS[1:], 2):
            jobs_pair.append({"sites": [v, w], "deco": "fn"})
    else:
        run.cap("quick: pairs/triples always involve the base site A; concrete batch for the tree")
    outcomes: Dict[str, int] = {}
    with Pool(init=("checks.c15", "_warm"), job_timeout=300) as pool:
        for fnname, jobs in (("job_tree", jobs_tree), ("job_pair", jobs_pair)):
            for _i, p, r in pool.imap("checks.c07", fnname, jobs):
                run.add("evaluations")
                ident = (f"tree|{p['kind']}|{'/'.join(str(d) for d in p['decos'])}|{'sym' if p.get('symbolic') else 'concrete'}"
                         if fnname == "job_tree" else f"sites|{'>'.join(p['sites'])}|{p['deco']}")
                if is_worker_failure(r):
                    run.harness_error(f"{ident}: {r.get('_worker')} {r.get('msg', '')[:200]}")
                    continue
                outcomes[r["status"]] = outcomes.get(r["status"], 0) + 1
                if r["status"] != "ok":
                    if r["status"] == "refused":
                        outcomes["refused:" + r.get("type", "")] = outcomes.get("refused:" + r.get("type", ""), 0) + 1
                    continue
                run.add("transitions", 2)
                run.add("traces_validated_against_impl", 2)
                if r.get("digest"):
                    run.state(r["digest"])
                if r.get("functions"):
                    run.nontrivial(ident)
                for b in r["bad"][:2]:
                    run.violation(f"{ident}|{b.split(':')[0]}", b, {"kind": fnname, "case": p})
                if len(run.cov["samples"]) < 5:
                    run.sample({"case": ident, "functions": r.get("functions"), "call_nodes": r.get("call_nodes")})
    run.cov["outcomes"] = outcomes
    return run.finish()


def replay(rep: Dict[str, Any]) -> Dict[str, Any]:
    from checks.c15 import _warm
    _warm()
    r = job_tree(rep["case"]) if rep["kind"] == "job_tree" else job_pair(rep["case"])
    return {"violation": bool(r.get("bad")), "observed": r}
