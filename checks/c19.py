"""C19 - library calls keep their call signature while being traced.

Layer 1 (exhaustive, static): for EVERY MonkeyPatchSpec substitute installed while tracing (all plugin binding specs
of the working tree) and EVERY parameter of the replaced function's signature, in positional and in keyword form:
the installed substitute must bind what the original binds (inspect.signature(...).bind_partial on both, with the
real patches applied through the converter's own activation context).
Layer 2 (dynamic): a table of single-call programs passing a non-default value for one parameter each (axis,
keepdims, dtype, where, initial, descending, stable, side, mode, endpoint, approximate, unroll, use_bias, ...) is
run eagerly and exported: if eager JAX accepts the call, tracing must accept it and either export a model equal to
eager JAX (the argument is not ignored) or raise an explicit unsupported-feature error.
"""
from __future__ import annotations

import inspect
from typing import Any, Callable, Dict, List, Optional, Tuple

import numpy as np

from mc.pool import Pool, is_worker_failure
from mc.report import Run

PROP = "C19"


def _sig(obj) -> Optional[inspect.Signature]:
    try:
        return inspect.signature(obj)
    except (TypeError, ValueError):
        return None


def job_static(_p) -> Dict[str, Any]:
    """All substitutes x all parameters x {positional, keyword}."""
    import jax2onnx.plugins.plugin_system as ps
    from jax2onnx.plugins import _patching
    import jax2onnx.converter.conversion_api as capi
    ps.import_all_plugins()
    specs = []
    for name, plugin in ps.PLUGIN_REGISTRY.items():
        cls = plugin.__class__
        bs = getattr(cls, "binding_specs", None)
        if bs is None:
            continue
        try:
            lst = bs()
        except Exception:
            continue
        for s in lst:
            if isinstance(s, _patching.MonkeyPatchSpec):
                specs.append((name, s))
    originals = {}
    for pname, s in specs:
        try:
            tgt = _patching._resolve(s.target)
            originals[(id(tgt), s.attr)] = (tgt, getattr(tgt, s.attr, None), pname)
        except Exception:
            pass
    rows: List[Dict[str, Any]] = []
    gaps: List[Dict[str, Any]] = []
    act = getattr(capi, "_activate_plugin_worlds", None)
    if act is None:
        return {"status": "seam_missing"}
    with act():
        for (tid, attr), (tgt, orig, pname) in originals.items():
            if orig is None or not callable(orig):
                continue
            sub = getattr(tgt, attr, None)
            if sub is orig or sub is None:
                continue
            so, ss = _sig(orig), _sig(sub)
            tname = f"{getattr(tgt, '__name__', type(tgt).__name__)}.{attr}"
            full = f"{getattr(tgt, '__module__', '') or getattr(tgt, '__name__', '')}:{tname}"
            if so is None or ss is None:
                rows.append({"target": full, "params": 0, "note": "signature unavailable"})
                continue
            params = list(so.parameters.values())
            is_method = params and params[0].name == "self"
            n_forms = 0
            sentinel = object()
            pos_index = 0
            for idx, prm in enumerate(params):
                if prm.kind in (prm.VAR_POSITIONAL, prm.VAR_KEYWORD):
                    continue
                forms = []
                if prm.kind in (prm.POSITIONAL_ONLY, prm.POSITIONAL_OR_KEYWORD):
                    forms.append(("positional", [sentinel] * (idx + 1), {}))
                if prm.kind in (prm.POSITIONAL_OR_KEYWORD, prm.KEYWORD_ONLY):
                    lead = [sentinel] if is_method and idx > 0 else []
                    forms.append(("keyword", lead, {prm.name: sentinel}))
                for form, a, kw in forms:
                    try:
                        so.bind_partial(*a, **kw)
                    except TypeError:
                        continue  # not a valid call of the original either
                    n_forms += 1
                    try:
                        ss.bind_partial(*a, **kw)
                    except TypeError as e:
                        gaps.append({"target": full, "param": prm.name, "form": form, "error": str(e)[:100], "plugin": pname})
            rows.append({"target": full, "params": len(params), "forms": n_forms})
    return {"status": "ok", "substitutes": len(rows), "forms": sum(r.get("forms", 0) for r in rows), "gaps": gaps,
            "sample": rows[:3], "no_signature": sum(1 for r in rows if r.get("note"))}


# ---- layer 2: curated single-call programs ---------------------------------------------------------------------
def _calls() -> Dict[str, Tuple[Callable, List[Any]]]:
    import jax
    import jax.numpy as jnp
    from jax import lax
    F = (2, 3)
    i32 = jax.ShapeDtypeStruct((2, 3), jnp.int32)
    mask = np.array([[True, False, True], [False, True, True]])
    c: Dict[str, Tuple[Callable, List[Any]]] = {
        "jnp.sum(axis=1)": (lambda x: jnp.sum(x, axis=1), [F]),
        "jnp.sum(axis=(0,1), keepdims=True)": (lambda x: jnp.sum(x, axis=(0, 1), keepdims=True), [F]),
        "jnp.sum(where=mask)": (lambda x: jnp.sum(x, where=mask), [F]),
        "jnp.sum(initial=2.5)": (lambda x: jnp.sum(x, initial=2.5), [F]),
        "jnp.sum(dtype=int32)": (lambda x: jnp.sum(x, dtype=jnp.int32), [F]),
        "jnp.mean(where=mask)": (lambda x: jnp.mean(x, axis=1, where=mask), [F]),
        "jnp.max(initial=10, where=mask)": (lambda x: jnp.max(x, initial=10.0, where=mask), [F]),
        "jnp.min(axis=0, keepdims=True)": (lambda x: jnp.min(x, axis=0, keepdims=True), [F]),
        "jnp.prod(axis=-1)": (lambda x: jnp.prod(x, axis=-1), [F]),
        "jnp.var(ddof=1)": (lambda x: jnp.var(x, axis=1, ddof=1), [F]),
        "jnp.std(ddof=1, keepdims=True)": (lambda x: jnp.std(x, axis=1, ddof=1, keepdims=True), [F]),
        "jnp.sort(descending=True)": (lambda x: jnp.sort(x, axis=-1, descending=True), [F]),
        "jnp.sort(axis=0)": (lambda x: jnp.sort(x, axis=0), [F]),
        "jnp.sort(stable=False)": (lambda x: jnp.sort(x, stable=False), [F]),
        "jnp.argsort(descending=True)": (lambda x: jnp.argsort(x, axis=-1, descending=True), [F]),
        "jnp.argmax(keepdims=True)": (lambda x: jnp.argmax(x, axis=1, keepdims=True), [F]),
        "jnp.argmin(axis=0)": (lambda x: jnp.argmin(x, axis=0), [F]),
        "jnp.cumsum(axis=1, dtype=float32)": (lambda x: jnp.cumsum(x, axis=1, dtype=jnp.float32), [i32]),
        "jnp.cumsum(axis=None)": (lambda x: jnp.cumsum(x), [F]),
        "jnp.cumprod(axis=0)": (lambda x: jnp.cumprod(x, axis=0), [F]),
        "jnp.clip(min=, max=) keywords": (lambda x: jnp.clip(x, min=-0.5, max=0.75), [F]),
        "jnp.clip(positional)": (lambda x: jnp.clip(x, -0.5, 0.75), [F]),
        "jnp.clip(positional min, keyword max)": (lambda x: jnp.clip(x, -0.5, max=0.75), [F]),
        "jnp.clip(None, positional max, keyword min)": (lambda x: jnp.clip(x, None, 0.75, min=-0.5), [F]),
        "jnp.clip(only max keyword)": (lambda x: jnp.clip(x, max=0.25), [F]),
        "jnp.diagonal(offset=1)": (lambda x: jnp.diagonal(x, offset=1), [F]),
        "jnp.diagonal(offset=1, axis1=1, axis2=0)": (lambda x: jnp.diagonal(x, offset=1, axis1=1, axis2=0), [F]),
        "jnp.diagonal(positional 1, -1, -2)": (lambda x: jnp.diagonal(x, 1, -1, -2), [F]),
        "jnp.trace(offset=1)": (lambda x: jnp.trace(x, offset=1), [F]),
        "jnp.swapaxes keywords": (lambda x: jnp.swapaxes(x, axis1=1, axis2=0), [F]),
        "jnp.moveaxis keywords": (lambda x: jnp.moveaxis(x, source=0, destination=1), [F]),
        "jnp.sum(axis keyword only, keepdims positional?)": (lambda x: jnp.sum(a=x, axis=0), [F]),
        "jnp.mean(x, 1, None, None, True)": (lambda x: jnp.mean(x, 1, None, None, True), [F]),
        "jnp.max(axis=-1 keyword)": (lambda x: jnp.max(x, axis=-1), [F]),
        "jnp.argmax(x, 0)": (lambda x: jnp.argmax(x, 0), [F]),
        "jnp.concatenate(arrays kw)": (lambda x: jnp.concatenate(arrays=[x, x], axis=0), [F]),
        "jnp.where(condition kw)": (lambda x: jnp.where(condition=x > 0, x=x, y=0.5), [F]),
        "jnp.take(indices kw)": (lambda x: jnp.take(x, indices=jnp.array([1, 0]), axis=1), [F]),
        "jnp.reshape(shape kw)": (lambda x: jnp.reshape(x, shape=(3, 2)), [F]),
        "jnp.tile(A kw)": (lambda x: jnp.tile(A=x, reps=2), [F]),
        "jnp.power positional": (lambda x: jnp.power(jnp.abs(x) + 0.5, 2.0), [F]),
        "jnp.std(axis pos)": (lambda x: jnp.std(x, 0), [F]),
        "jnp.linspace(positional endpoint)": (lambda x: x[0] + jnp.linspace(0.0, 1.0, 3, False), [F]),
        "jnp.concatenate(axis=1, dtype=float32)": (lambda x: jnp.concatenate([x, x * 2], axis=1, dtype=jnp.float32), [F]),
        "jnp.stack(axis=-1)": (lambda x: jnp.stack([x, x + 1], axis=-1), [F]),
        "jnp.take(mode=clip)": (lambda x: jnp.take(x, jnp.array([0, 5, -1]), axis=1, mode="clip"), [F]),
        "jnp.take(mode=wrap)": (lambda x: jnp.take(x, jnp.array([0, 4, -1]), axis=1, mode="wrap"), [F]),
        "jnp.take(fill_value)": (lambda x: jnp.take(x, jnp.array([0, 7]), axis=1, mode="fill", fill_value=9.0), [F]),
        "jnp.select(positional default)": (lambda x: jnp.select([x > 1.0, x < -1.0], [x * 2, x * 3], 7.0), [F]),
        "jnp.select(default=)": (lambda x: jnp.select([x > 1.0], [x * 2], default=-3.0), [F]),
        "jnp.where(three args)": (lambda x: jnp.where(x > 0.5, x, -1.0), [F]),
        "jnp.linspace(endpoint=False)": (lambda x: x[0] + jnp.linspace(0.0, 1.0, 3, endpoint=False), [F]),
        "jnp.arange(start, stop, step)": (lambda x: x[0] + jnp.arange(1, 7, 2, dtype=jnp.float32), [F]),
        "jnp.squeeze(axis=0)": (lambda x: jnp.squeeze(x[:1], axis=0), [F]),
        "jnp.expand_dims(axis=(0,2))": (lambda x: jnp.expand_dims(x, axis=(0, 2)), [F]),
        "jnp.transpose(axes=)": (lambda x: jnp.transpose(x, axes=(1, 0)), [F]),
        "jnp.reshape(order=F?)": (lambda x: jnp.reshape(x, (3, 2), order="F"), [F]),
        "jnp.tile(reps tuple)": (lambda x: jnp.tile(x, (1, 2)), [F]),
        "jnp.repeat(axis=1, total_repeat_length)": (lambda x: jnp.repeat(x, jnp.array([1, 2, 1]), axis=1, total_repeat_length=4), [F]),
        "jnp.pad(mode=constant, constant_values=)": (lambda x: jnp.pad(x, ((0, 1), (1, 0)), mode="constant", constant_values=2.0), [F]),
        "jnp.pad(mode=edge)": (lambda x: jnp.pad(x, ((0, 1), (1, 0)), mode="edge"), [F]),
        "jnp.matmul(precision=highest)": (lambda x: jnp.matmul(x, x.T, precision="highest"), [F]),
        "jnp.dot(preferred_element_type)": (lambda x: jnp.dot(x, x.T, preferred_element_type=jnp.float32), [F]),
        "jnp.einsum(optimize=False)": (lambda x: jnp.einsum("ij,kj->ik", x, x, optimize=False), [F]),
        "jnp.round(decimals=1)": (lambda x: jnp.round(x, decimals=1), [F]),
        "jnp.power(array exponent)": (lambda x: jnp.power(jnp.abs(x) + 1.0, jnp.array([1.0, 2.0, 0.5])), [F]),
        "jnp.maximum(scalar)": (lambda x: jnp.maximum(x, 0.25), [F]),
        "jnp.isclose(rtol, atol, equal_nan)": (lambda x: jnp.isclose(x, x + 1e-6, rtol=1e-3, atol=1e-3, equal_nan=True), [F]),
        "jnp.searchsorted(side=right)": (lambda x: jnp.searchsorted(jnp.array([0.0, 1.0, 2.0]), x[0], side="right"), [F]),
        "jnp.unique? size": (lambda x: jnp.unique(jnp.round(x[0]), size=3, fill_value=-9.0), [F]),
        "jnp.flip(axis=1)": (lambda x: jnp.flip(x, axis=1), [F]),
        "jnp.roll(shift, axis)": (lambda x: jnp.roll(x, 1, axis=1), [F]),
        "jnp.diff(n=1, axis=1)": (lambda x: jnp.diff(x, n=1, axis=1), [F]),
        "jnp.tril(k=1)": (lambda x: jnp.tril(x, k=1), [F]),
        "jnp.full_like(fill, dtype)": (lambda x: jnp.full_like(x, 2.5, dtype=jnp.float32) + x, [F]),
        "jnp.astype via asarray(dtype)": (lambda x: jnp.asarray(x, dtype=jnp.int32), [F]),
        "jax.nn.softmax(axis=0)": (lambda x: jax.nn.softmax(x, axis=0), [F]),
        "jax.nn.softmax(where=mask)": (lambda x: jax.nn.softmax(x, axis=-1, where=mask), [F]),
        "jax.nn.log_softmax(axis=0)": (lambda x: jax.nn.log_softmax(x, axis=0), [F]),
        "jax.nn.gelu(approximate=False)": (lambda x: jax.nn.gelu(x, approximate=False), [F]),
        "jax.nn.gelu(approximate=True)": (lambda x: jax.nn.gelu(x, approximate=True), [F]),
        "jax.nn.leaky_relu(negative_slope=0.3)": (lambda x: jax.nn.leaky_relu(x, negative_slope=0.3), [F]),
        "jax.nn.elu(alpha=0.5)": (lambda x: jax.nn.elu(x, alpha=0.5), [F]),
        "jax.nn.celu(alpha=2.0)": (lambda x: jax.nn.celu(x, alpha=2.0), [F]),
        "jax.nn.one_hot(dtype=int32, axis=0)": (lambda x: jax.nn.one_hot(jnp.array([0, 2, 1]), 3, dtype=jnp.int32, axis=0), [F]),
        "jax.nn.relu6": (lambda x: jax.nn.relu6(x * 4), [F]),
        "jax.nn.hard_tanh": (lambda x: jax.nn.hard_tanh(x * 2), [F]),
        "jax.nn.logsumexp(axis, keepdims, b=)": (lambda x: jax.nn.logsumexp(x, axis=1, keepdims=True, b=jnp.ones_like(x) * 2.0), [F]),
        "jax.nn.standardize(axis=0)": (lambda x: jax.nn.standardize(x, axis=0), [F]),
        "jax.nn.glu(axis=0)": (lambda x: jax.nn.glu(x, axis=0), [F]),
        "lax.fori_loop(unroll=2)": (lambda x: lax.fori_loop(0, 4, lambda i, c: c * 2.0 + 1.0, x, unroll=2), [F]),
        "lax.scan(unroll=2)": (lambda x: lax.scan(lambda c, r: (c + r, c), x[0], x, unroll=2)[0], [F]),
        "lax.reduce_max? axes": (lambda x: lax.reduce_max(x, axes=(1,)), [F]),
        "lax.dynamic_slice positional": (lambda x: lax.dynamic_slice(x, (0, 1), (2, 2)), [F]),
        "lax.clamp(min, x, max)": (lambda x: lax.clamp(-0.5, x, 0.5), [F]),
        "lax.top_k": (lambda x: lax.top_k(x, 2)[0], [F]),
        "lax.cumsum(reverse=True)": (lambda x: lax.cumsum(x, axis=1, reverse=True), [F]),
        "lax.reduce_precision": (lambda x: lax.reduce_precision(x, exponent_bits=5, mantissa_bits=10), [F]),
    }
    try:
        from flax import nnx
        lin = nnx.Linear(3, 2, use_bias=False, rngs=nnx.Rngs(0))
        ln = nnx.LayerNorm(3, use_scale=False, use_bias=False, rngs=nnx.Rngs(0))
        c["nnx.Linear(use_bias=False)"] = (lambda x: lin(x), [F])
        c["nnx.LayerNorm(no scale/bias)"] = (lambda x: ln(x), [F])
        c["nnx.softmax(where=mask)"] = (lambda x: nnx.softmax(x, axis=-1, where=mask), [F])
        c["nnx.gelu(approximate=False)"] = (lambda x: nnx.gelu(x, approximate=False), [F])
        c["nnx.leaky_relu(negative_slope=0.2)"] = (lambda x: nnx.leaky_relu(x, negative_slope=0.2), [F])
        c["nnx.one_hot(axis=0)"] = (lambda x: nnx.one_hot(jnp.array([0, 2]), 3, axis=0), [F])
        c["nnx.log_softmax(axis=0)"] = (lambda x: nnx.log_softmax(x, axis=0), [F])
    except Exception:
        pass
    return c


def job_call(p: Dict[str, Any]) -> Dict[str, Any]:
    import jax
    import jax.numpy as jnp
    from jax2onnx import to_onnx
    from mc import gspace as G, lattice
    name = p["call"]
    fn, specs = _calls()[name]
    xs = []
    for s in specs:
        if isinstance(s, tuple):
            xs.append(lattice.fill(s, lattice.FLOAT_PATTERNS["mixed_small"], np.float32))
        else:
            xs.append(lattice.fill(tuple(s.shape), [0, 1, 2, 3, 1, 2], np.int32))
    try:
        exp = [np.asarray(v) for v in jax.tree_util.tree_leaves(jax.device_get(fn(*[jnp.asarray(x) for x in xs])))]
    except Exception as e:  # noqa: BLE001
        return {"status": "jax_rejects", "msg": f"{type(e).__name__}: {str(e)[:100]}"}
    try:
        m = to_onnx(fn, specs)
    except Exception as e:  # noqa: BLE001
        msg = str(e)
        explicit = isinstance(e, NotImplementedError) or any(t in msg.lower() for t in ("not supported", "unsupported", "not implemented", "does not support"))
        return {"status": "raised", "type": type(e).__name__, "msg": msg[:200], "explicit": explicit,
                "binding_error": isinstance(e, TypeError) and any(t in msg for t in ("unexpected keyword", "positional argument", "got multiple values", "missing"))}
    names = [i.name for i in m.graph.input]
    st, out = G.ort_run(m, dict(zip(names, xs)))
    if st != "ok":
        from mc import walker
        if walker.ort_limitation(str(out)):
            return {"status": "ok", "ort_limitation": True}
        return {"status": "ok", "diff": f"model {st}: {str(out)[:150]}"}
    if len(out) != len(exp):
        return {"status": "ok", "diff": f"{len(out)} outputs vs {len(exp)}"}
    for k, (o, e) in enumerate(zip(out, exp)):
        o = np.asarray(o)
        if o.shape != e.shape:
            return {"status": "ok", "diff": f"output {k} shape {o.shape} vs JAX {e.shape}"}
        if e.dtype.kind in "fc":
            if not np.allclose(o.astype(np.float64), e.astype(np.float64), rtol=2e-5, atol=2e-6, equal_nan=True):
                return {"status": "ok", "diff": f"output {k}: {o.reshape(-1)[:4]} vs JAX {e.reshape(-1)[:4]}"}
        elif not np.array_equal(o.astype(np.int64), e.astype(np.int64)):
            return {"status": "ok", "diff": f"output {k}: {o.reshape(-1)[:4]} vs JAX {e.reshape(-1)[:4]}"}
    return {"status": "ok"}


def job_harvest(p) -> Dict[str, Any]:
    from mc import callforms
    calls = callforms.harvest(p.get("max_programs"), p.get("stripe", 0), p.get("n_stripes", 1))
    return {"calls": calls}


def job_forms(call: Dict[str, Any]) -> Dict[str, Any]:
    """All semantically identical call forms of one recorded library call, eager vs exported."""
    import importlib
    import jax
    import jax.numpy as jnp
    from jax2onnx import to_onnx
    from mc import callforms, gspace as G, walker
    tgt = importlib.import_module(call["module"])
    attr = call["attr"]
    orig = getattr(tgt, attr)
    fs = callforms.forms(call, orig)
    if len(fs) < 2:
        return {"status": "single_form", "forms": len(fs)}
    x0 = np.asarray(call["args"][0])
    spec = [jax.ShapeDtypeStruct(x0.shape, x0.dtype)]

    def program(a, kw):
        rest = a[1:]
        return lambda x: getattr(tgt, attr)(x, *rest, **kw)

    def leaves(v):
        return [np.asarray(t) for t in jax.tree_util.tree_leaves(jax.device_get(v))]

    results = []
    ref_vals = None
    base_ok = None
    n_rec = len(call["args"])
    order = sorted(fs, key=lambda f: 0 if len(f[1]) == n_rec else 1)  # the recorded split first
    for name, a, kw in order:
        prog = program(a, kw)
        try:
            e = leaves(prog(jnp.asarray(x0)))
        except Exception as ex:  # noqa: BLE001
            results.append({"form": name, "status": "jax_rejects"})
            continue
        if ref_vals is None:
            ref_vals = e
        elif len(e) != len(ref_vals) or any(a1.shape != b1.shape or not np.array_equal(a1, b1, equal_nan=True) if a1.dtype.kind in "fc" else
                                            (a1.shape != b1.shape or not np.array_equal(a1, b1)) for a1, b1 in zip(e, ref_vals)):
            results.append({"form": name, "status": "jax_differs"})
            continue
        try:
            m = to_onnx(prog, spec)
        except Exception as ex:  # noqa: BLE001
            msg = str(ex)
            rec = {"form": name, "status": "raised", "type": type(ex).__name__, "msg": msg[:160]}
            if base_ok is None:
                base_ok = False
            results.append(rec)
            continue
        st, out = G.ort_run(m, {m.graph.input[0].name: x0} if len(m.graph.input) else {})
        if st != "ok":
            if walker.ort_limitation(str(out)):
                results.append({"form": name, "status": "ort_limitation"})
            else:
                results.append({"form": name, "status": "model_error", "msg": str(out)[:160]})
            if base_ok is None:
                base_ok = False
            continue
        bad = None
        if len(out) != len(e):
            bad = f"{len(out)} outputs vs {len(e)}"
        else:
            for k, (o, ee) in enumerate(zip(out, e)):
                o = np.asarray(o)
                if o.shape != ee.shape:
                    bad = f"output {k} shape {o.shape} vs JAX {ee.shape}"
                    break
                if ee.dtype.kind in "fc":
                    if not np.allclose(o.astype(np.float64), ee.astype(np.float64), rtol=2e-5, atol=2e-6, equal_nan=True):
                        bad = f"output {k}: {o.reshape(-1)[:4]} vs JAX {ee.reshape(-1)[:4]}"
                        break
                elif not np.array_equal(o.astype(np.int64), ee.astype(np.int64)):
                    bad = f"output {k}: {o.reshape(-1)[:4]} vs JAX {ee.reshape(-1)[:4]}"
                    break
        if base_ok is None:
            base_ok = bad is None
        results.append({"form": name, "status": "ok" if bad is None else "different", "msg": bad})
    return {"status": "ok", "base_ok": bool(base_ok), "results": results}


def main(tier: str) -> int:
    run = Run(PROP, tier)
    from checks.c15 import _warm  # noqa: F401
    run.cov["rule"] = ("layer 1: every installed substitute x every parameter of the original signature x {positional, keyword} "
                       "(bind_partial on both); layer 2: every program of the single-call table exported and compared with eager "
                       "JAX. state = (substitute, parameter, form) / call; transition = one binding attempt / export; non-trivial = "
                       "call form the original accepts.")
    run.assumptions += ["only the installed library versions can be explored", "layer 2 covers the curated call table, not every parameter of every function"]
    with Pool(init=("mc.runners", "warm_oracle"), job_timeout=400) as pool:
        # layer 3, step 1: harvest call forms by running the testcases eagerly, before this pool converts anything
        merged: Dict[str, Dict[str, Any]] = {}
        by_stripe: Dict[int, List[Dict[str, Any]]] = {}
        n_str = 16
        for _i, p, hv in pool.imap("checks.c19", "job_harvest", [{"stripe": k, "n_stripes": n_str} for k in range(n_str)], timeout=600):
            if is_worker_failure(hv):
                run.harness_error(f"harvest stripe {p['stripe']}: {hv.get('_worker')} {hv.get('msg', '')[:200]}")
                run.cap("a harvest stripe failed")
                continue
            by_stripe[p["stripe"]] = hv["calls"]
        # one recorded call per (function, call shape), chosen independently of job completion order: the one with the
        # largest first argument (a one-element input cannot tell alpha=0.1 from alpha=1.0), ties by stripe number
        for k in sorted(by_stripe):
            for c in by_stripe[k]:
                cur = merged.get(c["key"])
                if cur is None or np.asarray(c["args"][0]).size > np.asarray(cur["args"][0]).size:
                    merged[c["key"]] = c
        hcalls = [merged[k] for k in sorted(merged)]
        r = pool.map("checks.c19", "job_static", [None])[0]
        if is_worker_failure(r):
            run.harness_error(f"static layer: {r.get('_worker')} {r.get('msg', '')[:300]}")
        elif r.get("status") != "ok":
            run.cap("seam conversion_api._activate_plugin_worlds not available: static layer skipped")
        else:
            run.cov["substitutes"] = r["substitutes"]
            run.cov["call_forms_checked"] = r["forms"]
            run.cov["substitutes_without_signature"] = r["no_signature"]
            run.add("evaluations", r["forms"])
            run.add("transitions", r["forms"])
            run.add("states", r["forms"])
            run.add("traces_validated_against_impl", r["substitutes"])
            run.add("distinct_nontrivial", r["forms"])
            run.sample({"static_rows": r["sample"]})
            by: Dict[str, List[Dict[str, Any]]] = {}
            for g in r["gaps"]:
                by.setdefault(g["target"], []).append(g)
            for tgt, gs in by.items():
                run.violation(f"static|{tgt}", f"substitute does not bind {[(g['param'], g['form']) for g in gs][:6]} which the original accepts ({gs[0]['error']})",
                              {"kind": "static", "target": tgt}, cases=sorted({f"{g['param']}:{g['form']}" for g in gs}))
        calls = sorted(_call_names())
        outcomes: Dict[str, int] = {}
        for _i, p, rr in pool.imap("checks.c19", "job_call", [{"call": c} for c in calls]):
            run.add("evaluations")
            if is_worker_failure(rr):
                run.harness_error(f"call {p['call']}: {rr.get('_worker')} {rr.get('msg', '')[:150]}")
                continue
            outcomes[rr["status"]] = outcomes.get(rr["status"], 0) + 1
            if rr["status"] == "jax_rejects":
                continue
            run.add("transitions")
            run.add("states")
            run.add("distinct_nontrivial")
            run.add("traces_validated_against_impl")
            if rr["status"] == "raised":
                if rr["binding_error"] or not rr["explicit"]:
                    run.violation(f"call|{p['call']}|raised", f"eager JAX accepts the call but tracing raises {rr['type']}: {rr['msg']}",
                                  {"kind": "call", "case": p})
                else:
                    outcomes["explicit_unsupported"] = outcomes.get("explicit_unsupported", 0) + 1
            elif rr.get("diff"):
                run.violation(f"call|{p['call']}|different", f"exported without error but differs from eager JAX: {rr['diff']}",
                              {"kind": "call", "case": p})
        run.cov["call_outcomes"] = outcomes
        run.cov["calls"] = len(calls)
        # layer 3: call forms harvested from the registered testcases themselves
        run.cov["harvested_calls"] = len(hcalls)
        run.cov["harvested_functions"] = len({c["module"] + "." + c["attr"] for c in hcalls})
        fstats = {"forms_exported": 0, "calls_with_several_forms": 0}
        for _i, c, rr in pool.imap("checks.c19", "job_forms", hcalls):
            if is_worker_failure(rr):
                run.harness_error(f"forms {c['key']}: {rr.get('_worker')} {rr.get('msg', '')[:150]}")
                continue
            if rr["status"] != "ok":
                continue
            fstats["calls_with_several_forms"] += 1
            if not rr["base_ok"]:
                continue  # the form the testcase itself uses does not export / match: not a matter of call forms
            for res in rr["results"]:
                run.add("evaluations")
                if res["status"] in ("ok", "different", "raised", "model_error"):
                    fstats["forms_exported"] += 1
                    run.add("transitions")
                    run.add("states")
                    run.add("distinct_nontrivial")
                    run.add("traces_validated_against_impl")
                if res["status"] in ("different", "raised", "model_error"):
                    run.violation(f"forms|{c['key']}|{res['form']}",
                                  f"{c['module']}.{c['attr']}: the call form '{res['form']}' is equivalent in eager JAX to the form the "
                                  f"testcase uses (which exports correctly) but tracing {res['status']}: {res.get('type', '')} {res.get('msg', '')}",
                                  {"kind": "forms", "call_key": c["key"]})
            if len(run.cov["samples"]) < 6:
                run.sample({"harvested_call": c["key"], "forms": [r_["form"] + ":" + r_["status"] for r_ in rr["results"]]})
        run.cov.update(fstats)
    run._nontrivial = set()
    return run.finish()


def _call_names() -> List[str]:
    # names only (the table itself needs JAX and is built in the workers); keep in sync by construction
    import ast
    import os
    src = open(os.path.abspath(__file__)).read()
    tree = ast.parse(src)
    names: List[str] = []
    for node in ast.walk(tree):
        if isinstance(node, ast.FunctionDef) and node.name == "_calls":
            for sub in ast.walk(node):
                if isinstance(sub, ast.Dict):
                    names += [k.value for k in sub.keys if isinstance(k, ast.Constant) and isinstance(k.value, str)]
                if isinstance(sub, ast.Subscript) and isinstance(sub.value, ast.Name) and sub.value.id == "c" and isinstance(sub.slice, ast.Constant):
                    names.append(sub.slice.value)
    return sorted(set(names))


def replay(rep: Dict[str, Any]) -> Dict[str, Any]:
    from checks.c15 import _warm
    _warm()
    if rep["kind"] == "call":
        r = job_call(rep["case"])
        return {"violation": r.get("status") == "raised" or bool(r.get("diff")), "observed": r}
    r = job_static(None)
    return {"violation": any(g["target"] == rep["target"] for g in r.get("gaps", [])), "observed": [g for g in r.get("gaps", []) if g["target"] == rep["target"]]}
