"""C13 - a conversion leaves the host process as it found it.

Explicit-state search over conversion histories on the real implementation.  A *state* is the process
snapshot: identity of every callable/class/descriptor attribute of every loaded jax*/flax*/equinox*/... module
and class (>100k entries), jax_enable_x64, the converter's patch bookkeeping, digests of user model objects,
and behavioural probes (the converted callable and jitted helpers called eagerly).  *Events* are conversions:
succeeding ones of every flavour, and failing ones at each stage, including a fault injected at EVERY tracing-time
patch application (crash point k of ~500) and an unresolvable function patch.  The invariant "state == initial
state" is evaluated after every event of every history up to the depth bound; histories run in worker processes
that are verified pristine before each history (and replaced when not).
"""
from __future__ import annotations

import itertools
import os
import threading
from typing import Any, Dict, List, Optional, Tuple

import numpy as np

from mc.pool import Pool, is_worker_failure
from mc.report import Run
from mc.explorer import digest

PROP = "C13"


class InjectedFault(RuntimeError):
    pass


# --------------------------------------------------------------------------
# worker-side world
# --------------------------------------------------------------------------
_W: Dict[str, Any] = {}


def _world() -> Dict[str, Any]:
    """Built once per worker: probes, user objects, baseline snapshot (before any conversion)."""
    if _W:
        return _W
    import logging
    logging.disable(logging.WARNING)
    import jax
    import jax.numpy as jnp
    from mc import snapshot
    try:
        from jax2onnx.plugins.plugin_system import import_all_plugins
        import_all_plugins()  # library import, not a conversion: everything it loads is part of the baseline
    except Exception:
        pass
    import flax.linen as linen  # noqa: F401
    from flax import nnx
    import equinox as eqx

    warm_jit = jax.jit(lambda x: jnp.sort(x) * 2.0)
    warm_jit(jnp.asarray([3.0, 1.0, 2.0]))  # warm before the baseline
    _W["warm_jit"] = warm_jit
    _W["nnx_model"] = nnx.Linear(3, 2, rngs=nnx.Rngs(0))
    _W["eqx_model"] = eqx.nn.Linear(3, 2, key=jax.random.PRNGKey(0))
    _W["cold_counter"] = 0
    _W["baseline"] = snapshot.take()
    _W["baseline_conv"] = snapshot.converter_state()
    _W["spec_count"] = None
    return _W


def _model_digest(obj) -> str:
    import jax
    leaves = jax.tree_util.tree_leaves(obj) if not hasattr(obj, "__nnx_repr__") else None
    if leaves is None:
        from flax import nnx
        leaves = jax.tree_util.tree_leaves(nnx.state(obj))
    return digest([np.asarray(x).tobytes().hex()[:64] + str(np.asarray(x).shape) for x in leaves])


def _probes(w) -> Dict[str, str]:
    """Behaviour of eager JAX code, as strings (value digests or exception classes)."""
    import jax
    import jax.numpy as jnp
    out: Dict[str, str] = {}

    def run(name, f):
        try:
            v = f()
            out[name] = "ok:" + digest(np.asarray(v).tolist())[:10]
        except Exception as e:  # noqa: BLE001
            out[name] = f"{type(e).__name__}: {str(e)[:90]}"

    x = jnp.asarray([3.0, 1.0, 2.0])
    run("warm_jit_sort", lambda: w["warm_jit"](x))
    run("fresh_jit_sort", lambda: jax.jit(lambda a: jnp.sort(a) + 1.0)(x))
    run("fresh_jit_where", lambda: jax.jit(lambda a: jnp.where(a > 1.5, a, -a))(x))
    run("eager_matmul", lambda: jnp.matmul(jnp.ones((2, 3)), jnp.ones((3, 2))))
    run("nnx_call", lambda: w["nnx_model"](jnp.ones((1, 3))))
    run("eqx_call", lambda: w["eqx_model"](jnp.ones((3,))))
    return out


def _state(w) -> Dict[str, Any]:
    from mc import snapshot
    return {"ns": snapshot.diff(w["baseline"], snapshot.take()),
            "conv": snapshot.converter_state(),
            "nnx": _model_digest(w["nnx_model"]), "eqx": _model_digest(w["eqx_model"]),
            "probes": _probes(w)}


def _count_specs() -> Optional[int]:
    """Number of tracing-time patch applications of one conversion (crash points)."""
    import jax2onnx.plugins.plugin_system as ps
    real = getattr(ps, "apply_patches", None)
    if real is None:
        return None
    n = [0]

    def counting(specs):
        n[0] += len(specs)
        return real(specs)

    ps.apply_patches = counting
    try:
        import jax.numpy as jnp
        from jax2onnx import to_onnx
        to_onnx(lambda x: x + 1.0, [(2,)])
    finally:
        ps.apply_patches = real
    return n[0]


def _event(w, ev: str) -> str:
    """Run one conversion event on the real to_onnx; returns the outcome class."""
    import jax
    import jax.numpy as jnp
    from jax import lax
    from jax2onnx import to_onnx, onnx_function
    import jax2onnx.plugins.plugin_system as ps

    def conv(fn, spec=None, **kw):
        try:
            to_onnx(fn, spec or [(2, 3)], **kw)
            return "returned"
        except InjectedFault:
            return "InjectedFault"
        except Exception as e:  # noqa: BLE001
            return type(e).__name__

    if ev == "ok_f32":
        return conv(lambda x: jnp.tanh(x) * 2.0 + jnp.sum(x))
    if ev == "ok_f64":
        return conv(lambda x: jnp.exp(x) / 3.0, enable_double_precision=True)
    if ev == "ok_nnx":
        return conv(lambda x: w["nnx_model"](x))
    if ev == "ok_eqx":
        return conv(lambda x: jax.vmap(w["eqx_model"])(x))
    if ev == "ok_linen":
        import flax.linen as nn
        m = nn.Dense(2)
        params = m.init(jax.random.PRNGKey(0), jnp.ones((1, 3)))
        return conv(lambda x: m.apply(params, x))
    if ev == "ok_mha":
        from flax import nnx
        mha = nnx.MultiHeadAttention(num_heads=1, in_features=3, qkv_features=3, decode=False, rngs=nnx.Rngs(0))
        return conv(lambda x: mha(x), [(1, 2, 3)])
    if ev == "ok_onnx_fn":
        from mc import grammars
        inner = grammars._fresh_fn(lambda y: y * 2.0 + 1.0, False)
        outer = grammars._fresh_fn(lambda y: inner(y) + 0.5, True)
        return conv(lambda x: outer(x))
    if ev == "ok_control_flow":
        return conv(lambda x: lax.fori_loop(0, 2, lambda i, c: lax.cond(jnp.sum(c) > 0, lambda y: y * 2.0, lambda y: y - 1.0, c), x))
    if ev == "ok_jit_inner":
        # a jit-compiled helper first traced while conversion patches are active, then used eagerly
        w["cold_counter"] += 1
        k = float(w["cold_counter"])
        helper = jax.jit(lambda a: jnp.sort(a, axis=-1) * k)
        out = conv(lambda x: helper(x) + 1.0)
        x = jnp.asarray([[3.0, 1.0, 2.0], [0.0, 5.0, 4.0]])
        try:
            got = np.asarray(helper(x))
            exp = np.sort(np.asarray(x), axis=-1) * k
            w.setdefault("post_probe", {})["jit_helper_after_conversion"] = "ok" if np.array_equal(got, exp) else "wrong value"
        except Exception as e:  # noqa: BLE001
            w.setdefault("post_probe", {})["jit_helper_after_conversion"] = f"{type(e).__name__}: {str(e)[:90]}"
        return out
    if ev == "ok_symbolic":
        return conv(lambda x: jnp.reshape(x, (x.shape[0] * 3,)) * 2.0, [("B", 3)])
    if ev == "raise_trace":
        def bad(x):
            raise RuntimeError("boom while tracing")
        return conv(bad)
    if ev == "raise_lowering":
        from jax._src import core as jcore
        p = jcore.Primitive("verif_unsupported_prim")
        p.def_impl(lambda y: y)
        p.def_abstract_eval(lambda y: y)
        return conv(lambda x: p.bind(x) + 1.0)
    if ev == "raise_in_loop_body":
        from jax._src import core as jcore
        p = jcore.Primitive("verif_unsupported_prim_loop")
        p.def_impl(lambda y: y)
        p.def_abstract_eval(lambda y: y)
        return conv(lambda x: lax.fori_loop(0, 2, lambda i, c: p.bind(c) * 2.0, x))
    if ev == "raise_in_fn_body":
        from jax._src import core as jcore
        from mc import grammars
        p = jcore.Primitive("verif_unsupported_prim_fn")
        p.def_impl(lambda y: y)
        p.def_abstract_eval(lambda y: y)
        t = grammars._fresh_fn(lambda y: p.bind(y) * 2.0, False)
        return conv(lambda x: t(x))
    if ev == "raise_save":
        import onnx
        real = onnx.save_model

        def failing(*a, **k):
            raise OSError("injected serialisation failure")
        onnx.save_model = failing
        try:
            return conv(lambda x: x * 2.0, return_mode="file", output_path=os.path.join(w.get("tmp", "/verif/scratch"), "c13_never.onnx"))
        finally:
            onnx.save_model = real
    if ev == "raise_bad_args":
        return conv(lambda x: x, inputs_as_nchw=[5])
    if ev == "fault_fnpatch_unresolvable":
        # @onnx_function on a function that is not a module attribute: the function patch cannot be resolved
        w["cold_counter"] += 1

        def nested(y):
            return y * 2.0
        nested.__name__ = nested.__qualname__ = f"NestedUnresolvable{w['cold_counter']}"
        onnx_function(nested)
        try:
            return conv(lambda x: nested(x))
        finally:
            # remove the registration again so that it does not shadow later events (the user "fixes the code")
            for reg in (getattr(ps, "PLUGIN_REGISTRY", {}), getattr(ps, "ONNX_FUNCTION_PLUGIN_REGISTRY", {})):
                for key in [k for k in list(reg) if "NestedUnresolvable" in str(k)]:
                    reg.pop(key, None)
    if ev.startswith("fault_patch@"):
        k = int(ev.split("@")[1])
        real = getattr(ps, "apply_patches", None)
        if real is None:
            return "seam_missing"
        from jax2onnx.plugins._patching import MonkeyPatchSpec
        seen = [0]

        def injecting(specs):
            specs = list(specs)
            lo = seen[0]
            seen[0] += len(specs)
            if lo <= k < lo + len(specs):
                s = specs[k - lo]

                def boom(orig):
                    raise InjectedFault(f"injected at patch application {k}")
                specs[k - lo] = MonkeyPatchSpec(target=s.target, attr=s.attr, make_value=boom,
                                                delete_if_missing=getattr(s, "delete_if_missing", False))
            return real(specs)

        ps.apply_patches = injecting
        try:
            return conv(lambda x: jnp.tanh(x) + 1.0)
        finally:
            ps.apply_patches = real
    raise ValueError(ev)


BASE_EVENTS = ["ok_f32", "ok_f64", "ok_nnx", "ok_eqx", "ok_linen", "ok_mha", "ok_onnx_fn", "ok_control_flow", "ok_jit_inner",
               "ok_symbolic", "raise_trace", "raise_lowering", "raise_in_loop_body", "raise_in_fn_body", "raise_save",
               "raise_bad_args", "fault_fnpatch_unresolvable"]


def _diff_states(s0: Dict[str, Any], s1: Dict[str, Any]) -> List[str]:
    out = []
    out += [f"namespace: {d}" for d in s1["ns"] if d not in s0["ns"]]
    for k in set(s0["conv"]) | set(s1["conv"]):
        if s0["conv"].get(k) != s1["conv"].get(k):
            out.append(f"converter state: {k} {s0['conv'].get(k)!r} -> {s1['conv'].get(k)!r}")
    for k in ("nnx", "eqx"):
        if s0[k] != s1[k]:
            out.append(f"user object mutated: {k} model parameters changed")
    for k in s0["probes"]:
        if s0["probes"][k] != s1["probes"].get(k):
            out.append(f"probe {k}: {s0['probes'][k]} -> {s1['probes'].get(k)}")
    return out


def job_history(p: Dict[str, Any]) -> Dict[str, Any]:
    """Run one history in this process (must be pristine at the start); report the state after every event."""
    w = _world()
    if p.get("count_specs"):
        return {"spec_count": _count_specs()}
    s_init = _state(w)
    pre = [d for d in s_init["ns"]] + [f"{k}={v}" for k, v in s_init["conv"].items()
                                        if w["baseline_conv"].get(k) != v]
    bad_probe = [k for k, v in s_init["probes"].items() if not v.startswith("ok:")]
    if pre or bad_probe:
        # not pristine (an earlier history left the process dirty): ask for a fresh process
        return {"dirty_start": True, "detail": (pre + bad_probe)[:5], "_retire": True}
    steps = []
    prev_diff: List[str] = []
    dirty = False
    for ev in p["history"]:
        w.pop("post_probe", None)
        outcome = _event(w, ev)
        cur = _state(w)
        d_all = _diff_states(s_init, cur)
        for name, val in (w.get("post_probe") or {}).items():
            if val != "ok":
                d_all.append(f"probe {name}: {val}")
        d_new = [x for x in d_all if x not in prev_diff]  # what THIS event introduced
        prev_diff = d_all
        # canonical state: what differs from the initial snapshot, with generated names normalised (the same
        # leak under a different generated function name is the same state)
        steps.append({"event": ev, "outcome": outcome, "diff": d_new,
                      "state": digest(sorted(_norm(x) for x in d_all))[:14]})
        if [x for x in d_all if not x.startswith("probe jit_helper_after_conversion")]:
            dirty = True  # process-wide state changed (an event-local poisoned jit helper is not process state)
    retire = bool(dirty and not _try_repair(w))
    return {"steps": steps, "_retire": retire,
            "init_state": digest([])[:14]}


def _try_repair(w) -> bool:
    """After the difference has been recorded, put cheap converter bookkeeping back so that the worker can be
    reused; anything else (namespace changes, leaked patches) needs a fresh process."""
    try:
        import jax2onnx.plugins.plugin_system as ps
        cv = getattr(ps, "_ONNX_FN_HITS", None)
        if cv is not None:
            cv.set(set())
    except Exception:
        return False
    s = _state(w)
    return not _diff_states({"ns": [], "conv": w["baseline_conv"], "nnx": s["nnx"], "eqx": s["eqx"], "probes": s["probes"]}, s) \
        and all(v.startswith("ok:") for v in s["probes"].values())


def _suicide() -> None:
    """This process is dirty: exit right after the result has been sent so that the pool starts a fresh one."""
    t = threading.Timer(0.3, lambda: os._exit(0))
    t.daemon = True
    t.start()


def _norm(d: str) -> str:
    import re
    d = re.sub(r"NestedUnresolvable\d+", "NestedUnresolvable#", d)
    d = re.sub(r"GenFn\d+", "GenFn#", d)
    d = re.sub(r"ok:[0-9a-f]{10}", "ok", d)
    d = re.sub(r"_ONNX_FN_HITS \[\] -> \[.*\]", "_ONNX_FN_HITS [] -> [function names left behind]", d)
    return d


def main(tier: str) -> int:
    run = Run(PROP, tier)
    depth = 2 if tier == "quick" else 3
    run.cov["rule"] = ("explicit-state search: all histories of conversion events up to the depth bound (base alphabet of 17 "
                       "succeeding/failing conversions + representative injected faults) and every single-event history "
                       "'fault at patch application k' for all k; state = digest of the process snapshot after the event; "
                       "transition = one to_onnx call on the real code; invariant: snapshot == initial snapshot. "
                       "non-trivial = event whose outcome is a raised exception (the unwinding paths) or that ran a "
                       "function-body / control-flow conversion.")
    run.assumptions += ["attributes holding plain data (ints, strings, containers) are not compared: eager JAX changes "
                        "counters and caches itself", "library code imported for the first time is not a difference"]
    with Pool(init=("checks.c13", "_world"), job_timeout=400) as pool:
        r0 = pool.map("checks.c13", "job_history", [{"count_specs": True}])[0]
        n_specs = None if is_worker_failure(r0) else r0.get("spec_count")
        run.cov["patch_applications_per_conversion"] = n_specs
        faults_all = [f"fault_patch@{k}" for k in range(n_specs or 0)]
        reps = [f"fault_patch@{k}" for k in ((0, (n_specs or 2) // 2, (n_specs or 1) - 1) if n_specs else ())]
        if n_specs is None:
            run.cap("seam plugin_system.apply_patches not available: crash points at patch applications not explored")
        alphabet = BASE_EVENTS + reps
        histories: List[List[str]] = [[e] for e in alphabet]
        histories += [[e] for e in faults_all if e not in reps]
        for d in range(2, depth + 1):
            if d == 2:
                histories += [list(h) for h in itertools.product(alphabet, repeat=2)]
            else:
                # depth 3: restricted to histories whose first two events are failing ones or function/jit conversions
                core = [e for e in alphabet if e.startswith(("raise", "fault")) or e in ("ok_onnx_fn", "ok_jit_inner", "ok_f64")]
                histories += [list(h) for h in itertools.product(core, repeat=3)]
                run.cap("depth 3 restricted to the failing / function / jit / f64 sub-alphabet")
        run.cov["histories"] = len(histories)
        run.cov["alphabet"] = alphabet
        single = [{"history": h} for h in histories if len(h) == 1]
        deeper = [{"history": h} for h in histories if len(h) > 1]
        pending = single
        rounds = 0
        phase = 1
        seen_states = set()
        while pending and rounds < 4:
            rounds += 1
            retry = []
            def guarded(items):
                for it in items:
                    if pool.restarts > 64 and len(run.violations) > 0:
                        # almost every history leaves the process dirty: the property is already decided (violated);
                        # do not spend the budget restarting workers
                        run.cap(f"exploration stopped after {pool.restarts} dirty processes with violations found")
                        skipped.append(it)
                        continue
                    yield it

            skipped: List[Dict[str, Any]] = []
            for _i, p, r in pool.imap("checks.c13", "job_history", guarded(pending)):
                if is_worker_failure(r):
                    if r.get("_worker") == "died":
                        retry.append(p)
                    else:
                        run.harness_error(f"history {p['history']}: {r.get('_worker')} {r.get('msg', '')[:150]}")
                    continue
                if r.get("dirty_start"):
                    retry.append(p)
                    continue
                run.add("evaluations")
                run.add("traces_validated_against_impl")
                seen_states.add(r["init_state"])
                prefix: List[str] = []
                for st in r["steps"]:
                    run.add("transitions")
                    seen_states.add(st["state"])
                    prefix.append(st["event"])
                    if st["outcome"] != "returned" or st["event"] in ("ok_onnx_fn", "ok_control_flow", "ok_jit_inner"):
                        run.nontrivial("/".join(prefix))
                    groups: Dict[str, List[str]] = {}
                    for dmsg in st["diff"]:
                        kind = dmsg.split(":")[0] if dmsg.startswith(("namespace", "converter state", "user object")) else _norm(dmsg)
                        groups.setdefault(kind, []).append(_norm(dmsg))
                    ev_key = "fault_patch@k" if st["event"].startswith("fault_patch@") else st["event"]
                    for kind, msgs in groups.items():
                        run.violation(f"{ev_key}|{kind}",
                                      f"after history {prefix} (outcome of last event: {st['outcome']}): {len(msgs)} difference(s), e.g. {msgs[:3]}",
                                      {"history": list(prefix)}, cases=sorted(set(msgs)))
                if len(run.cov["samples"]) < 5:
                    run.sample({"history": p["history"], "outcomes": [s["outcome"] for s in r["steps"]],
                                "diffs": [len(s["diff"]) for s in r["steps"]]})
            pending = retry
            if not pending and phase == 1:
                phase = 2
                if len(run.violations) > 20 or pool.restarts > 60:
                    # the tree is broken in many places: every history would need a fresh process; the single-event
                    # exploration already decides the property
                    run.cap(f"depth >= 2 histories skipped: {len(run.violations)} violations / {pool.restarts} dirty processes after depth 1")
                else:
                    pending = deeper
                    rounds = 0
        if pending:
            run.harness_error(f"{len(pending)} histories could not be run from a pristine process")
            run.cap("some histories not run")
        for s in seen_states:
            run.state(s)
    return run.finish()


def replay(rep: Dict[str, Any]) -> Dict[str, Any]:
    with Pool(1, init=("checks.c13", "_world")) as pool:
        r = pool.map("checks.c13", "job_history", [{"history": rep["history"]}])[0]
    bad = any(s["diff"] for s in r.get("steps", []))
    return {"violation": bad, "observed": r}
