"""C12 - layout flags only add boundary transposes.

Enumerated: a generated family of 4-D programs (residual add, per-channel scale+bias, mean over H,W, two 4-D
inputs, mixed 4-D / 2-D outputs, unused 4-D input, output that is an input, conv, transposes inside) and every
corpus program with a 4-D input or output, x ALL subsets of flagged 4-D inputs x ALL subsets of flagged 4-D
outputs; invalid requests {-1, n, duplicate, bool, float, non-4-D target} must raise.
Oracle: ORT(flagged)(to_nchw(x)) == to_nchw(ORT(plain)(x)) bit-exactly on all-distinct data, unflagged inputs and
outputs untouched; for the generated family additionally == eager JAX.
"""
from __future__ import annotations

import itertools
from typing import Any, Dict, List, Optional, Tuple

import numpy as np

from mc.pool import Pool, is_worker_failure
from mc.report import Run

PROP = "C12"
FAMILY = ["residual", "scale_bias", "mean_hw", "two_inputs", "mixed_outputs", "unused_input", "output_is_input",
          "conv", "inner_transposes", "relu_chain", "reduce_channel", "concat_channels", "mean_two_consumers",
          "sym_mean_fill", "sym_add_plane", "sym_residual_hw", "sym_two_inputs"]
SYM_SPEC = ("B", "H", "W", 3)
SYM_BINDINGS = [(2, 4, 5, 3), (1, 3, 3, 3), (3, 2, 6, 3)]


def _family(name: str):
    import jax
    import jax.numpy as jnp
    S = (1, 4, 5, 3)
    if name == "residual":
        return (lambda x: jax.nn.relu(x * 2.0 - 3.0) + x), [S]
    if name == "scale_bias":
        sc = np.array([1.0, 2.0, 4.0], np.float32)
        bi = np.array([0.5, -1.0, 2.0], np.float32)
        return (lambda x: x * sc + bi), [S]
    if name == "mean_hw":
        return (lambda x: (x, jnp.mean(x, axis=(1, 2), keepdims=True))), [S]
    if name == "two_inputs":
        return (lambda a, b: (a + b * 2.0, a - b)), [S, S]
    if name == "mixed_outputs":
        return (lambda x: (x * 2.0, jnp.sum(x, axis=(1, 2)), jnp.max(x))), [S]
    if name == "unused_input":
        return (lambda a, b: a * 2.0 + 1.0), [S, S]
    if name == "output_is_input":
        return (lambda a, b: (a, a + b)), [S, S]
    if name == "conv":
        from flax import nnx
        conv = nnx.Conv(3, 2, kernel_size=(3, 3), rngs=nnx.Rngs(0))
        return (lambda x: conv(x)), [S]
    if name == "inner_transposes":
        return (lambda x: jnp.transpose(jax.nn.relu(jnp.transpose(x, (0, 3, 1, 2)) - 2.0), (0, 2, 3, 1)) + x), [S]
    if name == "relu_chain":
        return (lambda x: jnp.maximum(jnp.minimum(jax.nn.relu(x - 5.0), 20.0), x * 0.5)), [S]
    if name == "reduce_channel":
        return (lambda x: (jnp.sum(x, axis=3, keepdims=True), x[..., :1])), [S]
    if name == "concat_channels":
        return (lambda a, b: jnp.concatenate([a, b * 2.0], axis=3)), [S, S]
    if name == "mean_two_consumers":
        def f(x):
            m = jnp.mean(x, axis=(1, 2), keepdims=True)
            return m, x - m
        return f, [S]
    if name == "sym_mean_fill":
        return (lambda x: jnp.broadcast_to(jnp.mean(x, axis=(1, 2, 3), keepdims=True), x.shape) + x * 0.0), [SYM_SPEC]
    if name == "sym_add_plane":
        return (lambda x: x + jnp.ones((x.shape[1], x.shape[2], x.shape[3]), x.dtype) * x.shape[2]), [SYM_SPEC]
    if name == "sym_residual_hw":
        return (lambda x: jax.nn.relu(x - 1.0) + x * x.shape[1]), [SYM_SPEC]
    if name == "sym_two_inputs":
        return (lambda a, b: (a + b * a.shape[2], jnp.sum(b, axis=(1, 2)))), [SYM_SPEC, SYM_SPEC]
    raise ValueError(name)


def _data(shape, k: int) -> np.ndarray:
    n = int(np.prod(shape))
    return (np.arange(n, dtype=np.float32) * 0.5 - n / 8.0 + k).reshape(shape).astype(np.float32)


def _subsets(idx: List[int], cap: int) -> List[Tuple[int, ...]]:
    out = []
    for r in range(len(idx) + 1):
        out += list(itertools.combinations(idx, r))
    return out[:cap]


def _run_flag_matrix(export, n_in: int, in_shapes, expected_plain=None, cap: int = 64) -> Dict[str, Any]:
    """export(inputs_as_nchw, outputs_as_nchw) -> ModelProto"""
    from mc import gspace as G
    res: Dict[str, Any] = {"bad": [], "configs": 0, "flagged_configs": 0, "digests": []}
    try:
        plain = export(None, None)
    except Exception as e:  # noqa: BLE001
        return {"status": "plain_refused", "msg": f"{type(e).__name__}: {str(e)[:120]}"}
    names = [i.name for i in plain.graph.input][:n_in]
    xs = [_data(s, k) for k, s in enumerate(in_shapes)]
    st, base = G.ort_run(plain, dict(zip(names, xs)))
    if st != "ok":
        return {"status": "plain_unrunnable", "msg": str(base)[:150]}
    base = [np.asarray(o) for o in base]
    if expected_plain is not None:
        for k, (o, e) in enumerate(zip(base, expected_plain)):
            if o.shape != e.shape or not np.allclose(o, e, rtol=1e-5, atol=1e-5):
                res["bad"].append(f"plain export differs from JAX at output {k}")
    in4 = [k for k, s in enumerate(in_shapes) if len(s) == 4]
    out4 = [k for k, o in enumerate(base) if o.ndim == 4]
    res["four_d"] = [in4, out4]
    for fi in _subsets(in4, cap):
        for fo in _subsets(out4, cap):
            if not fi and not fo:
                continue
            res["configs"] += 1
            try:
                m = export(list(fi) or None, list(fo) or None)
            except Exception as e:  # noqa: BLE001
                res["bad"].append(f"inputs_as_nchw={list(fi)} outputs_as_nchw={list(fo)}: export raised {type(e).__name__}: {str(e)[:100]}")
                continue
            res["flagged_configs"] += 1
            res["digests"].append(G.model_digest(m)[:12])
            feeds = {n: (np.transpose(x, (0, 3, 1, 2)) if k in fi else x) for k, (n, x) in enumerate(zip([i.name for i in m.graph.input][:n_in], xs))}
            st, out = G.ort_run(m, feeds)
            if st != "ok":
                res["bad"].append(f"inputs_as_nchw={list(fi)} outputs_as_nchw={list(fo)}: model {st}: {str(out)[:120]}")
                continue
            if len(out) != len(base):
                res["bad"].append(f"inputs_as_nchw={list(fi)} outputs_as_nchw={list(fo)}: {len(out)} outputs vs {len(base)}")
                continue
            for k, (o, b) in enumerate(zip(out, base)):
                o = np.asarray(o)
                want = np.transpose(b, (0, 3, 1, 2)) if k in fo else b
                if o.shape != want.shape or not np.array_equal(o, want):
                    res["bad"].append(f"inputs_as_nchw={list(fi)} outputs_as_nchw={list(fo)}: output {k} "
                                      f"{'(flagged)' if k in fo else '(not flagged)'} shape {o.shape} vs expected {want.shape}"
                                      + ("" if o.shape != want.shape else f", values {o.reshape(-1)[:3]} vs {want.reshape(-1)[:3]}"))
                    break
    res["status"] = "ok"
    return res


def job_family(p: Dict[str, Any]) -> Dict[str, Any]:
    import jax
    import jax.numpy as jnp
    from jax2onnx import to_onnx
    fn, specs = _family(p["program"])
    if p["program"].startswith("sym_"):
        # symbolic spatial dims on flagged inputs: exported with symbols, executed for several bindings
        total: Dict[str, Any] = {"status": "ok", "bad": [], "configs": 0, "flagged_configs": 0, "digests": [], "four_d": None}
        cache: Dict[Any, Any] = {}

        def export(fi, fo):
            key = (tuple(fi or ()), tuple(fo or ()))
            if key not in cache:
                cache[key] = to_onnx(fn, specs, inputs_as_nchw=fi, outputs_as_nchw=fo)
            return cache[key]
        for shape in SYM_BINDINGS:
            shapes = [shape for _ in specs]
            xs = [_data(s, k) for k, s in enumerate(shapes)]
            exp = [np.asarray(v) for v in jax.tree_util.tree_leaves(jax.device_get(fn(*[jnp.asarray(x) for x in xs])))]
            r1 = _run_flag_matrix(export, len(specs), shapes, exp)
            if r1.get("status") != "ok":
                return r1
            total["bad"] += [f"binding {shape}: {b}" for b in r1["bad"]]
            total["configs"] += r1["configs"]
            total["flagged_configs"] += r1["flagged_configs"]
            total["digests"] = r1["digests"]
            total["four_d"] = r1["four_d"]
        return total
    xs = [_data(s, k) for k, s in enumerate(specs)]
    exp = [np.asarray(v) for v in jax.tree_util.tree_leaves(jax.device_get(fn(*[jnp.asarray(x) for x in xs])))]
    r = _run_flag_matrix(lambda fi, fo: to_onnx(fn, specs, inputs_as_nchw=fi, outputs_as_nchw=fo), len(specs), specs, exp)
    # invalid requests must be rejected
    if r.get("status") == "ok":
        n_out = len(exp)
        invalid = [("inputs_as_nchw", [-1]), ("inputs_as_nchw", [len(specs)]), ("inputs_as_nchw", [0, 0]), ("inputs_as_nchw", [True]),
                   ("inputs_as_nchw", [0.0]), ("outputs_as_nchw", [-1]), ("outputs_as_nchw", [n_out]), ("outputs_as_nchw", [0, 0]),
                   ("outputs_as_nchw", [1.0])]
        non4 = [k for k, e in enumerate(exp) if e.ndim != 4]
        if non4:
            invalid.append(("outputs_as_nchw", [non4[0]]))
        r["invalid_checked"] = 0
        for kw, val in invalid:
            try:
                to_onnx(fn, specs, **{kw: val})
                r["bad"].append(f"invalid request {kw}={val!r} was accepted")
            except Exception:  # noqa: BLE001
                pass
            r["invalid_checked"] += 1
    return r


def job_corpus(p: Dict[str, Any]) -> Dict[str, Any]:
    from mc import corpus
    tp = corpus.get(p["pid"])
    _s, meta, _v = corpus.input_meta(tp)
    syms = corpus.symbols(meta)
    binding = {s: 2 for s in syms}
    try:
        shapes = [corpus.bind_shape(sh, binding) for sh, _dt in meta]
    except Exception:
        return {"status": "skip"}
    if not any(len(s) == 4 for s in shapes) or any(np.dtype(dt).kind != "f" for _sh, dt in meta):
        return {"status": "skip"}
    if tp.get("input_params"):
        return {"status": "skip"}
    try:
        fn = corpus.instantiate(tp)
    except Exception:
        return {"status": "skip"}
    if not corpus.random_free(fn, meta, tp):
        return {"status": "skip"}
    return _run_flag_matrix(lambda fi, fo: corpus.export(tp, fn, inputs_as_nchw=fi, outputs_as_nchw=fo, input_names=None, output_names=None),
                            len(meta), shapes, None, cap=8)


def main(tier: str) -> int:
    run = Run(PROP, tier)
    from checks.c15 import _warm  # noqa: F401
    run.cov["rule"] = ("every program x every subset of flagged 4-D inputs x every subset of flagged 4-D outputs (corpus: first 8 "
                       "subsets per side); state = digest of the flagged export; transition = one export + execution; "
                       "non-trivial = configuration with at least one flag whose export ran.")
    run.assumptions += ["the plain (unflagged) export is the reference for the flagged ones; the generated family is also compared with eager JAX"]
    with Pool(init=("mc.runners", "warm_export"), job_timeout=300) as pool:
        for _i, p, r in pool.imap("checks.c12", "job_family", [{"program": n} for n in FAMILY]):
            run.add("evaluations")
            if is_worker_failure(r):
                run.harness_error(f"family {p['program']}: {r.get('_worker')} {r.get('msg', '')[:150]}")
                continue
            if r.get("status") != "ok":
                run.harness_error(f"family {p['program']}: {r}")
                continue
            run.add("transitions", r["configs"])
            run.add("traces_validated_against_impl", r["flagged_configs"])
            for dg in r["digests"]:
                run.state(dg)
            run.add("distinct_nontrivial", r["flagged_configs"])
            for b in r["bad"][:6]:
                run.violation(f"family|{p['program']}|{b.split(':')[0][:70]}", b, {"kind": "family", "case": p})
            run.sample({"program": p["program"], "four_d_inputs_outputs": r["four_d"], "configs": r["configs"], "invalid_requests_checked": r.get("invalid_checked")})
        pids = pool.map("mc.corpus", "pids_job", [tier])[0]
        used = 0
        for _i, p, r in pool.imap("checks.c12", "job_corpus", [{"pid": q} for q in pids if not q.endswith("_f64")]):
            if is_worker_failure(r):
                run.harness_error(f"corpus {p['pid']}: {r.get('_worker')} {r.get('msg', '')[:150]}")
                continue
            if r.get("status") != "ok":
                continue
            used += 1
            run.add("evaluations")
            run.add("transitions", r["configs"])
            run.add("traces_validated_against_impl", r["flagged_configs"])
            for dg in r["digests"]:
                run.state(dg)
            run.add("distinct_nontrivial", r["flagged_configs"])
            for b in r["bad"][:3]:
                run.violation(f"corpus|{p['pid']}|{b.split(':')[0][:70]}", b, {"kind": "corpus", "case": p})
        run.cov["corpus_programs_with_4d_io"] = used
    run._nontrivial = set()
    return run.finish()


def replay(rep: Dict[str, Any]) -> Dict[str, Any]:
    from mc import runners
    runners.warm_export()
    r = job_family(rep["case"]) if rep["kind"] == "family" else job_corpus(rep["case"])
    return {"violation": bool(r.get("bad")), "observed": r}
