"""C08 - static type and shape annotations never contradict run time.

Enumerated: every corpus export + the nesting/control-flow grammar, x symbol bindings {default, all-ones,
alternative primes} x (grammar) both branch signs.  Observation of EVERY annotated value:
  (i)  top level: the model is re-emitted with every value_info entry as an extra graph output and run in ORT;
  (ii) nested scopes (Loop/If/Scan bodies, function bodies): a hooked ONNX ReferenceEvaluator records dtype and
       shape of every named value in every scope on every iteration;
  (iii) post-processing: annotations captured immediately before and after the real postprocess_ir_model call
       inside to_onnx: graph I/O identical, intermediates equal or weaker.
Oracle: runtime dtype == declared dtype; runtime rank == declared rank; every concrete declared dim equals the
runtime extent; a symbol is bound consistently within one run.
"""
from __future__ import annotations

from typing import Any, Dict, List, Optional, Tuple

import numpy as np

from mc.pool import Pool, is_worker_failure
from mc.report import Run

PROP = "C08"


def _declared(vi) -> Optional[Tuple[int, Optional[List[Any]]]]:
    if not vi.type.HasField("tensor_type"):
        return None
    tt = vi.type.tensor_type
    shape = None
    if tt.HasField("shape"):
        shape = [d.dim_value if d.HasField("dim_value") else (d.dim_param or None) for d in tt.shape.dim]
    return tt.elem_type, shape


def _check_value(name: str, decl, arr: np.ndarray, symtab: Dict[str, int], where: str) -> Optional[str]:
    from onnx import helper
    elem, shape = decl
    arr = np.asarray(arr)
    if elem:
        try:
            want = helper.tensor_dtype_to_np_dtype(elem)
            if np.dtype(want) != arr.dtype and not (str(want) == str(arr.dtype)):
                return f"{where}: value {name!r} declared {helper.tensor_dtype_to_string(elem)} but is {arr.dtype} at run time"
        except Exception:
            pass
    if shape is None:
        return None
    if len(shape) != arr.ndim:
        return f"{where}: value {name!r} declared rank {len(shape)} {shape} but has shape {arr.shape} at run time"
    for k, (d, r) in enumerate(zip(shape, arr.shape)):
        if isinstance(d, int):
            if d != r:
                return f"{where}: value {name!r} declared shape {shape} but has shape {arr.shape} at run time"
        elif isinstance(d, str) and d:
            if d.isidentifier():
                if symtab.setdefault(d, r) != r:
                    return (f"{where}: symbol {d!r} is {symtab[d]} elsewhere in this run but axis {k} of {name!r} "
                            f"(declared {shape}) has extent {r}")
    return None


def observe_top(model, feeds) -> Tuple[str, List[str]]:
    """(i) every annotated top-level value through ORT."""
    import onnx
    from mc import runners
    produced = {o for n in model.graph.node for o in n.output}
    decl: Dict[str, Any] = {}
    for vi in list(model.graph.value_info) + list(model.graph.output) + list(model.graph.input):
        d = _declared(vi)
        if d is not None:
            decl[vi.name] = d
    m2 = onnx.ModelProto()
    m2.CopyFrom(model)
    have = {o.name for o in m2.graph.output}
    extra = [vi for vi in model.graph.value_info if vi.name in produced and vi.name not in have and vi.name in decl]
    for vi in extra:
        o = m2.graph.output.add()
        o.name = vi.name  # type left open: ORT infers it
    sess = runners.make_session(m2.SerializeToString())
    if sess[0] is None:
        # fall back to the plain model (only graph outputs observable)
        sess = runners.make_session(model.SerializeToString())
        if sess[0] is None:
            return "unloadable", []
        names = [o.name for o in model.graph.output]
    else:
        names = [o.name for o in m2.graph.output]
    _e, st, res = runners.run_model(sess, feeds, limit=5.0)
    if st != "ok":
        return st, []
    problems: List[str] = []
    symtab: Dict[str, int] = {}
    for i in model.graph.input:
        if i.name in feeds and i.name in decl:
            pr = _check_value(i.name, decl[i.name], feeds[i.name], symtab, "graph input")
            if pr:
                problems.append(pr)
    for nm, arr in zip(names, res):
        if nm in decl:
            pr = _check_value(nm, decl[nm], arr, symtab, "graph")
            if pr:
                problems.append(pr)
    return f"ok:{len(names)}", problems


class _Recorder:
    def __init__(self):
        self.problems: List[str] = []
        self.values = 0
        self.scopes = 0


def observe_nested(model, feeds, budget_s: float = 20.0) -> Tuple[str, List[str], int]:
    """(ii) every named value in every scope through a hooked ReferenceEvaluator."""
    import time
    import onnx
    from onnx.reference import ReferenceEvaluator
    rec = _Recorder()
    orig = ReferenceEvaluator.run
    t0 = time.time()

    def decl_of(ev) -> Dict[str, Any]:
        cached = getattr(ev, "_verif_decl", None)
        if cached is not None:
            return cached
        proto = getattr(ev, "proto_", None)
        d: Dict[str, Any] = {}
        vis = []
        where = "scope"
        if isinstance(proto, onnx.ModelProto):
            vis = list(proto.graph.value_info) + list(proto.graph.output) + list(proto.graph.input)
            where = "graph"
        elif isinstance(proto, onnx.GraphProto):
            vis = list(proto.value_info) + list(proto.output) + list(proto.input)
            where = f"subgraph {proto.name!r}"
        elif isinstance(proto, onnx.FunctionProto):
            vis = list(getattr(proto, "value_info", []))
            where = f"function {proto.name!r}"
        for vi in vis:
            dd = _declared(vi)
            if dd is not None:
                d[vi.name] = dd
        # The reference evaluator stacks scalar per-iteration Loop outputs as (trip, 1) where ORT and the ONNX
        # spec give (trip,): everything computed from a Loop's scan outputs in this scope is an evaluator artefact,
        # not an observation of the model (top-level values are observed through ORT instead).
        nodes = []
        if isinstance(proto, onnx.ModelProto):
            nodes = list(proto.graph.node)
        elif isinstance(proto, (onnx.GraphProto, onnx.FunctionProto)):
            nodes = list(proto.node)
        tainted = set()
        for n in nodes:
            if n.op_type == "Loop" and len(n.output) > max(len(n.input) - 2, 0):
                tainted.update(n.output[max(len(n.input) - 2, 0):])
            elif any(i in tainted for i in n.input):
                tainted.update(n.output)
        for t in tainted:
            d.pop(t, None)
        ev._verif_decl = (d, where)
        return ev._verif_decl

    def run(self, output_names, feed_inputs, attributes=None, intermediate=False):
        if time.time() - t0 > budget_s:
            raise TimeoutError("reference evaluator budget exhausted")
        res = orig(self, output_names, feed_inputs, attributes=attributes, intermediate=True)
        d, where = decl_of(self)
        rec.scopes += 1
        symtab: Dict[str, int] = {}
        for nm, val in res.items():
            if nm in d and isinstance(val, np.ndarray):
                rec.values += 1
                pr = _check_value(nm, d[nm], val, symtab, where)
                if pr and len(rec.problems) < 20 and pr not in rec.problems:
                    rec.problems.append(pr)
        if intermediate:
            return res
        names = output_names if output_names is not None else self.output_names
        return [res[n] for n in names]

    ReferenceEvaluator.run = run
    try:
        try:
            ev = ReferenceEvaluator(model)
            ev.run(None, {k: v for k, v in feeds.items() if k in set(ev.input_names)})
            status = "ok"
        except Exception as e:  # noqa: BLE001
            status = f"ref_unavailable: {type(e).__name__}: {str(e)[:100]}"
    finally:
        ReferenceEvaluator.run = orig
    return status, rec.problems, rec.values


# ---- (iii) post-processing only weakens
def _ir_snapshot(model) -> Dict[str, Any]:
    import onnx_ir as ir
    snap: Dict[str, Any] = {"io": [], "mid": {}}

    def dims(v):
        sh = getattr(v, "shape", None)
        if sh is None:
            return None
        out = []
        for d in sh.dims:
            out.append(int(d) if isinstance(d, (int, np.integer)) else (getattr(d, "value", None) or None))
        return out

    def dt(v):
        t = getattr(v, "type", None)
        return str(getattr(t, "dtype", None)) if t is not None else None

    g = model.graph
    for v in list(g.inputs) + list(g.outputs):
        snap["io"].append((v.name, dt(v), dims(v)))

    def walk(graph, path):
        for node in graph:
            for o in node.outputs:
                snap["mid"][(path, o.name)] = (dt(o), dims(o), o.const_value is not None or node.op_type == "Constant")
            for a in node.attributes.values():
                if a.type == ir.AttributeType.GRAPH:
                    walk(a.as_graph(), path + "/" + (node.name or node.op_type))
                elif a.type == ir.AttributeType.GRAPHS:
                    for k, sg in enumerate(a.as_graphs()):
                        walk(sg, path + "/" + (node.name or node.op_type) + f"[{k}]")
    walk(g, "graph")
    for fid, fn in model.functions.items():
        walk(fn, f"function {fid[1]}")
    return snap


def observe_postprocess(export_fn) -> Tuple[str, List[str]]:
    import jax2onnx.user_interface as ui
    real = getattr(ui, "postprocess_ir_model", None)
    if real is None:
        return "seam_missing", []
    cap: Dict[str, Any] = {}

    def wrapper(model, *a, **kw):
        cap["before"] = _ir_snapshot(model)
        r = real(model, *a, **kw)
        cap["after"] = _ir_snapshot(model)
        cap["double"] = kw.get("promote_to_double", a[0] if a else False)
        return r

    ui.postprocess_ir_model = wrapper
    try:
        export_fn()
    except Exception as e:  # noqa: BLE001
        return f"raise {type(e).__name__}", []
    finally:
        ui.postprocess_ir_model = real
    if "after" not in cap:
        return "not_called", []
    problems: List[str] = []
    b, a = cap["before"], cap["after"]
    if b["io"] != a["io"]:
        for x, y in zip(b["io"], a["io"]):
            if x != y:
                problems.append(f"postprocess changed a graph input/output annotation: {x} -> {y}")
                break
    for key, (dt0, sh0, is_const) in b["mid"].items():
        if key not in a["mid"]:
            continue
        dt1, sh1, _ = a["mid"][key]
        if dt0 != dt1 and not (cap["double"] and dt0 and "FLOAT" in str(dt0) and "DOUBLE" in str(dt1)):
            problems.append(f"postprocess changed dtype of {key}: {dt0} -> {dt1}")
        if sh0 is None or sh1 is None:
            if sh0 is None and sh1 is not None:
                problems.append(f"postprocess invented a shape for {key}: None -> {sh1}")
            continue
        if len(sh0) != len(sh1):
            problems.append(f"postprocess changed rank of {key}: {sh0} -> {sh1}")
            continue
        for d0, d1 in zip(sh0, sh1):
            if d1 is not None and d1 != d0:
                problems.append(f"postprocess strengthened/changed a dim of {key}: {sh0} -> {sh1}")
                break
    return "ok", problems[:5]


# --------------------------------------------------------------------------
def _bindings(syms: List[str], tier: str) -> List[Dict[str, int]]:
    from mc import runners
    out = [runners.default_binding(syms)]
    if syms:
        out.append({s: 1 for s in syms})
        out.append({s: v for s, v in zip(syms, [5, 2, 7, 3, 2, 5])})
        if tier == "thorough":
            out.append({s: v for s, v in zip(syms, [3, 3, 3, 3, 3, 3])})
    return out


def job_corpus(p: Dict[str, Any]) -> Dict[str, Any]:
    import onnx
    from mc import corpus, runners, lattice, walker
    tp = corpus.get(p["pid"])
    try:
        fn = corpus.instantiate(tp)
    except Exception as e:  # noqa: BLE001
        return {"status": "build_error"}
    holder: Dict[str, Any] = {}

    def do_export():
        holder["model"] = corpus.export(tp, fn)

    pst, pprob = observe_postprocess(do_export)
    if "model" not in holder:
        return {"status": "raise", "post": pst}
    model = holder["model"]
    _s, meta, _v = corpus.input_meta(tp)
    m_in, _ = runners.model_io(model)
    params = tp.get("input_params") or {}
    pos = [mi for mi in m_in if mi[0] not in params]
    nested = any(n.op_type in ("Loop", "If", "Scan") for _w, n in walker.iter_all_nodes(model)) or len(model.functions) > 0
    out = {"status": "ok", "post": pst, "problems": [("post", x) for x in pprob], "values": 0, "runs": 0,
           "nested": nested, "digest": __import__("hashlib").sha256(model.SerializeToString()).hexdigest()[:14],
           "ref": None}
    for bi, binding in enumerate(_bindings(corpus.symbols(meta), p["tier"])):
        try:
            arrays = []
            for k, (sh, dt) in enumerate(meta):
                mdt = pos[k][1] if k < len(pos) and pos[k][1] is not None and np.dtype(dt).kind != "c" else dt
                kind = np.dtype(mdt).kind
                vals = (lattice.FLOAT_PATTERNS["mixed_small"] if kind in "fc" else
                        lattice.INT_PATTERNS["small_nonneg"] if kind in "iu" else lattice.BOOL_PATTERNS["alternating"])
                arrays.append(lattice.fill(corpus.bind_shape(sh, binding), vals, mdt, offset=k))
            arrays = runners.apply_domain_rules(tp["pid"], arrays, tp)
            feeds = runners.feeds_for(m_in, arrays, tp)
        except Exception as e:  # noqa: BLE001
            out["feed_error"] = f"{type(e).__name__}: {str(e)[:100]}"
            break
        st, probs = observe_top(model, feeds)
        out["runs"] += 1
        if st.startswith("ok:"):
            out["values"] += int(st[3:])
        elif bi > 0 and st in ("run_error",):
            # the model may legitimately reject a binding the program does not admit (e.g. size-1 batch for a reshape)
            pass
        out["problems"] += [("top", x) for x in probs]
        if nested and (p["tier"] == "thorough" or bi == 0):
            rst, rprobs, nvals = observe_nested(model, feeds, budget_s=15.0 if p["tier"] == "quick" else 60.0)
            out["ref"] = rst
            out["values"] += nvals
            out["problems"] += [("nested", x) for x in rprobs]
    return out


def job_nest(case: Dict[str, Any]) -> Dict[str, Any]:
    from jax2onnx import to_onnx
    from mc import grammars
    holder: Dict[str, Any] = {}

    def do_export():
        fn = grammars.nest_program(case["word"], case["variant"])
        holder["model"] = to_onnx(fn, grammars.nest_spec(case))

    pst, pprob = observe_postprocess(do_export)
    if "model" not in holder:
        return {"status": "raise", "post": pst}
    model = holder["model"]
    out = {"status": "ok", "post": pst, "problems": [("post", x) for x in pprob], "values": 0, "runs": 0, "nested": True,
           "digest": __import__("hashlib").sha256(model.SerializeToString()).hexdigest()[:14], "ref": None}
    name = model.graph.input[0].name
    for b in ([2, 1, 5] if case["symbolic"] else [2]):
        for sign in (1.0, -1.0):
            feeds = {name: grammars.nest_feed(case, b, sign)}
            st, probs = observe_top(model, feeds)
            out["runs"] += 1
            if st.startswith("ok:"):
                out["values"] += int(st[3:])
            out["problems"] += [("top", x) for x in probs]
            rst, rprobs, nvals = observe_nested(model, feeds, budget_s=15.0)
            out["ref"] = rst
            out["values"] += nvals
            out["problems"] += [("nested", x) for x in rprobs]
    return out


def job_gspace(p: Dict[str, Any]) -> Dict[str, Any]:
    """Slice of the optimizer graph space (see C02): after the REAL optimize_graph every annotated value of the
    optimised graph is observed at run time (the optimizer re-stamps shapes/dtypes when it rewires nodes)."""
    from checks import c02
    from mc import gspace as G
    from mc.explorer import Chooser, explore, ExploreStats
    fam, rank, N, prefix = p["fam"], p["rank"], p["N"], p["prefix"]
    holder: Dict[str, Any] = {}
    out = {"graphs": 0, "changed": 0, "values": 0, "problems": [], "digests": []}

    def body(ch: Chooser):
        holder["case"] = c02.build_case(ch, fam, rank, N, "quick")

    for ex in explore(body, start_prefix=prefix, stats=ExploreStats()):
        case = holder["case"]
        if case is None or case["annot"] != "concrete":  # (the generator's sym1 mode reuses one symbol for unrelated extents)
            continue
        try:
            model = c02.to_model(case)
            after = G.optimize(model)
        except Exception:
            continue
        if sorted(G.op_histogram(model).items()) == sorted(G.op_histogram(after).items()):
            continue  # untouched graphs carry ONNX's own inferred annotations
        out["changed"] += 1
        feeds = c02._feeds(case["g"].inputs, 0)
        st, probs = observe_top(after, feeds)
        out["graphs"] += 1
        if st.startswith("ok:"):
            out["values"] += int(st[3:])
        elif st == "unloadable":
            # the unoptimised graph loads: a type/shape complaint about the optimised one is a false annotation
            s0, msg0 = G.ort_run(model, feeds)
            s1, msg1 = G.ort_run(after, feeds)
            if s0 == "ok" and s1 == "load_error" and any(t in str(msg1) for t in ("Type Error", "does not match expected type", "ShapeInferenceError", "Incompatible")):
                probs = [f"graph: optimised model is rejected because of its annotations: {str(msg1)[:200]}"]
        if len(out["digests"]) < 400:
            out["digests"].append(G.model_digest(after)[:12])
        for pr in probs[:2]:
            if len(out["problems"]) < 20:
                out["problems"].append({"graph": case["text"], "vector": ex.vector, "what": pr})
    return out


CHAIN_OPS = ("Relu", "Neg", "Abs", "Exp", "Tanh", "Sigmoid", "Sqrt", "AddSc", "MulSc", "Elu")


def job_chain(p: Dict[str, Any]) -> Dict[str, Any]:
    """Transpose -> chain of elementwise ops -> inverse Transpose, every chain over CHAIN_OPS of the given length:
    after the real optimizer every annotated value of the folded graph is observed at run time."""
    import itertools
    from onnx import helper
    from mc import gspace as G
    out = {"graphs": 0, "changed": 0, "values": 0, "problems": [], "digests": []}
    shape = (2, 3, 4)
    perm_f, perm_i = (1, 2, 0), (2, 0, 1)
    x = (np.arange(24, dtype=np.float32).reshape(shape) * 0.25 + 0.5)
    for chain in itertools.product(CHAIN_OPS, repeat=p["length"]):
        if chain[0] != p["first"]:
            continue
        for pa, pb in ((perm_f, perm_i), (perm_i, perm_f)):
            nodes = [helper.make_node("Transpose", ["x"], ["t0"], perm=list(pa))]
            inits = []
            cur = "t0"
            for k, op in enumerate(chain):
                nxt = f"e{k}"
                if op == "AddSc":
                    inits.append(G.const_init(f"c{k}", np.array(1.5, np.float32)))
                    nodes.append(helper.make_node("Add", [cur, f"c{k}"], [nxt]))
                elif op == "MulSc":
                    inits.append(G.const_init(f"c{k}", np.array(2.0, np.float32)))
                    nodes.append(helper.make_node("Mul", [cur, f"c{k}"], [nxt]))
                else:
                    nodes.append(helper.make_node(op, [cur], [nxt]))
                cur = nxt
            nodes.append(helper.make_node("Transpose", [cur], ["y"], perm=list(pb)))
            try:
                model = G.annotate(G.make_model(nodes, [G.vi("x", 1, shape)], [G.vi("y", 1, None)], initializers=inits))
                after = G.optimize(model)
            except Exception:
                continue
            out["graphs"] += 1
            if sorted(G.op_histogram(model).items()) == sorted(G.op_histogram(after).items()):
                continue
            out["changed"] += 1
            st, probs = observe_top(after, {"x": x})
            if st.startswith("ok:"):
                out["values"] += int(st[3:])
            elif st == "unloadable":
                s1, msg1 = G.ort_run(after, {"x": x})
                if s1 == "load_error":
                    probs = [f"graph: optimised model is rejected because of its annotations: {str(msg1)[:200]}"]
            if len(out["digests"]) < 300:
                out["digests"].append(G.model_digest(after)[:12])
            for pr in probs[:1]:
                if len(out["problems"]) < 10:
                    out["problems"].append({"graph": "T;" + ";".join(chain) + ";T'", "what": pr})
    return out


def main(tier: str) -> int:
    run = Run(PROP, tier)
    from mc import grammars
    run.cov["rule"] = ("every corpus export and nesting-grammar export x symbol bindings (default / all ones / primes) x both "
                       "branch signs; every annotated value observed at run time (top level via ORT with all value_info as "
                       "outputs; nested scopes via a hooked reference evaluator); annotations captured before/after the real "
                       "postprocess_ir_model. state = exported model digest; transition = one observed run; non-trivial = "
                       "model with nested scopes or >= 3 observed annotated values.")
    run.assumptions += ["ORT / ONNX reference evaluator report true runtime dtypes and shapes",
                        "a binding the model rejects at run time is not counted against annotations"]
    stats = {"exported": 0, "values_observed": 0, "ref_ok": 0, "ref_unavailable": 0, "post_ok": 0}
    with Pool(init=("mc.runners", "warm_export"), job_timeout=300) as pool:
        pids = pool.map("mc.corpus", "pids_job", [tier])[0]
        run.cov["programs"] = len(pids)
        ncases = grammars.nest_cases(2 if tier == "quick" else 3)
        if tier == "quick":
            run.cap("quick: nested-scope observation for the default binding only; nesting depth <= 2; heavy examples excluded")

        def handle(kind, ident, p, r):
            run.add("evaluations")
            if is_worker_failure(r):
                run.harness_error(f"{kind} {ident}: {r.get('_worker')} {r.get('msg', '')[:120]}")
                return
            if r.get("status") != "ok":
                return
            stats["exported"] += 1
            stats["values_observed"] += r["values"]
            run.add("transitions", r["runs"])
            run.add("traces_validated_against_impl", r["runs"])
            run.state(r["digest"])
            if r["nested"] or r["values"] >= 3:
                run.nontrivial(r["digest"])
            if r.get("ref") == "ok":
                stats["ref_ok"] += 1
            elif r.get("ref"):
                stats["ref_unavailable"] += 1
            if r.get("post") == "ok":
                stats["post_ok"] += 1
            seen = set()
            for scope, msg in r["problems"]:
                cls = scope + ":" + ("dtype" if " declared " in msg and "but is" in msg else
                                     "symbol" if msg.split(": ")[1].startswith("symbol") else
                                     "postprocess" if scope == "post" else "shape")
                if cls in seen:
                    continue
                seen.add(cls)
                run.violation(f"{kind}|{ident}|{cls}", msg, {"kind": kind, "case": p})
            if len(run.cov["samples"]) < 4 and r["values"]:
                run.sample({"program": ident, "observed_values": r["values"], "runs": r["runs"], "nested": r["nested"],
                            "reference_evaluator": r.get("ref")})

        for _i, p, r in pool.imap("checks.c08", "job_corpus", [{"pid": q, "tier": tier} for q in pids]):
            handle("corpus", p["pid"], p, r)
        for _i, p, r in pool.imap("checks.c08", "job_nest", ncases):
            handle("nest", "/".join(p["word"]) + f"|{p['variant']}|{'sym' if p['symbolic'] else 'concrete'}", p, r)
        # optimizer graph-space slice: annotations re-stamped by rewrites
        from checks import c02
        gjobs = []
        for fam, rank, N in ((("T", 2, 3), ("R", 2, 3), ("T", 3, 3)) if tier == "quick" else (("T", 2, 3), ("R", 2, 3), ("T", 3, 3), ("T", 4, 3), ("R", 3, 3))):
            for pref in c02._plan(fam, rank, N, "quick", 2):
                gjobs.append({"fam": fam, "rank": rank, "N": N, "prefix": pref})
        gstats = {"gspace_graphs_changed_by_optimizer": 0, "gspace_values_observed": 0}
        for _i, p, r in pool.imap("checks.c08", "job_gspace", gjobs):
            if is_worker_failure(r):
                run.harness_error(f"gspace {p['fam']}{p['rank']} {p['prefix']}: {r.get('_worker')} {r.get('msg', '')[:120]}")
                continue
            run.add("evaluations", r["graphs"])
            run.add("transitions", r["graphs"])
            run.add("traces_validated_against_impl", r["graphs"])
            gstats["gspace_graphs_changed_by_optimizer"] += r["changed"]
            gstats["gspace_values_observed"] += r["values"]
            for dg in r["digests"]:
                run.state(dg)
                run.nontrivial(dg)
            for pr in r["problems"]:
                cls = "dtype" if " declared " in pr["what"] and "but is" in pr["what"] else "shape"
                run.violation(f"gspace|{pr['graph']}|{cls}", pr["what"], {"kind": "gspace", "case": p, "vector": pr["vector"]})
        cjobs = [{"length": L, "first": f} for L in ((2, 3) if tier == "quick" else (2, 3, 4)) for f in CHAIN_OPS]
        for _i, p, r in pool.imap("checks.c08", "job_chain", cjobs):
            if is_worker_failure(r):
                run.harness_error(f"chain {p}: {r.get('_worker')} {r.get('msg', '')[:120]}")
                continue
            run.add("evaluations", r["graphs"])
            run.add("transitions", r["changed"])
            run.add("traces_validated_against_impl", r["graphs"])
            gstats["gspace_graphs_changed_by_optimizer"] += r["changed"]
            gstats["gspace_values_observed"] += r["values"]
            for dg in r["digests"]:
                run.state(dg)
                run.nontrivial(dg)
            for pr in r["problems"]:
                cls = "dtype" if " declared " in pr["what"] and "but is" in pr["what"] else "shape"
                run.violation(f"chain|{pr['graph']}|{cls}", pr["what"], {"kind": "chain", "case": p})
        stats.update(gstats)
    run.cov.update(stats)
    return run.finish()


def replay(rep: Dict[str, Any]) -> Dict[str, Any]:
    with Pool(1, init=("mc.runners", "warm_export")) as pool:
        fn = {"corpus": "job_corpus", "gspace": "job_gspace", "chain": "job_chain"}.get(rep["kind"], "job_nest")
        r = pool.map("checks.c08", fn, [rep["case"]])[0]
    return {"violation": bool(r.get("problems")), "observed": r}
