"""C09 - the precision flag is honoured end to end.

(a) single precision: every corpus program exported with enable_double_precision=False (and the generated
    constant-lattice programs) is scanned recursively (initializers, Constant attributes, value_info, graph
    I/O, Cast targets, nested graphs, function bodies): no DOUBLE / COMPLEX128 anywhere; float outputs FLOAT.
(b) double precision: every double-precision corpus variant / constant-lattice program whose plugin-free jaxpr
    in JAX x64 mode has only float64 float avals is executed on inputs whose mantissa is NOT float32
    representable; ORT must agree with eager JAX-x64 to 1e-9 relative (an f32 detour costs ~1e-8).
(c) the process-wide x64 flag after to_onnx equals the flag before, for every start state x flag x outcome
    (success, exception while tracing, unsupported primitive while lowering).
"""
from __future__ import annotations

import os
import shutil
from typing import Any, Dict, List

import numpy as np

from mc.pool import Pool, is_worker_failure
from mc.pipeline import two_stage
from mc.report import Run
from checks.c01 import scratch_dir

PROP = "C09"


def job_const_export(p: Dict[str, Any]) -> Dict[str, Any]:
    """Exporter: one constant-lattice program in one precision mode."""
    import jax
    from jax2onnx import to_onnx
    from mc import grammars, walker
    fn = grammars.const_program(p["kind"])
    dbl = p["double"]
    spec = [jax.ShapeDtypeStruct((2, 3), np.float64 if dbl else np.float32)] if p.get("sds", True) else [(2, 3)]
    try:
        m = to_onnx(fn, spec, enable_double_precision=dbl)
    except Exception as e:  # noqa: BLE001
        return {"status": "raise", "msg": f"{type(e).__name__}: {str(e)[:200]}"}
    et = walker.elem_types(m)
    out = {"status": "ok", "double_places": (et.get(11, []) + et.get(15, []))[:6], "float_places": et.get(1, [])[:6],
           "out_types": [o.type.tensor_type.elem_type for o in m.graph.output]}
    if p.get("out_dir"):
        path = os.path.join(p["out_dir"], f"const_{p['kind']}_{int(dbl)}.onnx")
        with open(path, "wb") as f:
            f.write(m.SerializeToString())
        out["path"] = path
    return out


def job_const_oracle(p: Dict[str, Any]) -> Dict[str, Any]:
    """Oracle: JAX x64 eager vs ORT for a constant-lattice program exported in double precision."""
    import jax
    import onnx
    from mc import grammars, runners, lattice
    jax.config.update("jax_enable_x64", True)
    try:
        fn = grammars.const_program(p["kind"])
        x = lattice.fill((2, 3), lattice.FLOAT_PATTERNS["f64_mantissa"], np.float64)
        import jax.numpy as jnp
        exp = np.asarray(fn(jnp.asarray(x)))
    finally:
        jax.config.update("jax_enable_x64", False)
    with open(p["path"], "rb") as f:
        data = f.read()
    m = onnx.load_model_from_string(data)
    sess = runners.make_session(data)
    _e, st, res = runners.run_model(sess, {m.graph.input[0].name: x})
    if st != "ok":
        return {"status": "run_error", "msg": str(res)[:200]}
    got = np.asarray(res[0])
    if got.dtype != np.float64:
        return {"status": "ok", "diff": f"output dtype {got.dtype} in a double-precision export"}
    err = np.abs(got - exp)
    allowed = 1e-12 * np.maximum(np.abs(exp), 1.0)
    if np.any(err > allowed):
        i = np.unravel_index(int(np.argmax(err / allowed)), err.shape)
        return {"status": "ok", "diff": f"|model-JAXx64|={err[i]:.3e} at {tuple(int(k) for k in i)}: model {got[i]!r} vs JAX {exp[i]!r} "
                                       f"(relative {err[i] / max(abs(exp[i]), 1e-300):.2e})"}
    return {"status": "ok", "max_rel": float(np.max(err / np.maximum(np.abs(exp), 1e-300)))}


def job_flag_matrix(_p) -> Dict[str, Any]:
    """Exporter: x64 flag before == after for start state x flag x outcome."""
    import jax
    import jax.numpy as jnp
    from jax2onnx import to_onnx
    rows = []

    def ok_fn(x):
        return x * 2.0 + 1.0

    def raise_in_trace(x):
        raise RuntimeError("boom while tracing")

    def unsupported(x):
        # a primitive without a registered lowering
        from jax._src import core as jcore
        p = jcore.Primitive("verif_unsupported_primitive")
        p.def_impl(lambda y: y)
        p.def_abstract_eval(lambda y: y)
        return p.bind(x)

    for start in (False, True):
        for flag in (False, True):
            for name, fn in (("ok", ok_fn), ("raise_in_trace", raise_in_trace), ("raise_in_lowering", unsupported)):
                jax.config.update("jax_enable_x64", start)
                outcome = "returned"
                try:
                    to_onnx(fn, [(2, 3)], enable_double_precision=flag)
                except Exception as e:  # noqa: BLE001
                    outcome = type(e).__name__
                after = bool(jax.config.jax_enable_x64)
                rows.append({"start": start, "flag": flag, "event": name, "outcome": outcome, "after": after})
    jax.config.update("jax_enable_x64", False)
    return {"rows": rows}


def main(tier: str) -> int:
    run = Run(PROP, tier)
    from mc import grammars
    run.cov["rule"] = ("(a) all single-precision corpus exports + constant-lattice programs scanned recursively for DOUBLE; "
                       "(b) all double-precision corpus variants whose JAX-x64 jaxpr is all-float64 + constant-lattice programs, "
                       "executed on non-f32-representable mantissas against eager JAX-x64; (c) 12 start x flag x outcome "
                       "combinations for the x64 flag. state = exported model digest / flag state; transition = export or "
                       "execution; non-trivial = model containing at least one float tensor (a) / all-f64 program executed (b).")
    run.assumptions += ["eager JAX with jax_enable_x64 is the double-precision reference",
                        "double budget 1e-9 relative to tensor scale for corpus programs, 1e-12 for the generated constant programs"]
    d = scratch_dir("c09")
    stats = {"single_scanned": 0, "double_all_f64": 0, "double_not_all_f64": 0, "double_cases": 0}
    try:
        def jobs1(pool1):
            pids = pool1.map("mc.corpus", "pids_job", [tier])[0]
            run.cov["programs"] = len(pids)
            # (c) flag matrix and constant programs ride on the exporter pool
            fm = pool1.map("checks.c09", "job_flag_matrix", [None])[0]
            if is_worker_failure(fm):
                run.harness_error(f"flag matrix: {fm}")
            else:
                for row in fm["rows"]:
                    run.add("evaluations")
                    run.add("transitions")
                    run.state(f"flag|{row['start']}|{row['flag']}|{row['event']}")
                    if row["after"] != row["start"]:
                        run.violation(f"x64flag|start={row['start']}|flag={row['flag']}|{row['event']}",
                                      f"jax_enable_x64 is {row['after']} after to_onnx ({row['outcome']}), was {row['start']} before",
                                      {"kind": "flag", "row": row})
                run.sample({"flag_matrix_rows": fm["rows"][:3]})
            cj = [{"kind": k, "double": dbl, "out_dir": d} for k in grammars.CONST_KINDS for dbl in (False, True)]
            for p, r in zip(cj, pool1.map("checks.c09", "job_const_export", cj)):
                handle_export(p, r, f"const/{p['kind']}", p["double"])
                if not is_worker_failure(r) and r.get("status") == "ok" and p["double"]:
                    const_oracle_jobs.append({"kind": p["kind"], "path": r["path"]})
            return [{"pid": p, "out_dir": d} for p in pids]

        const_oracle_jobs: List[Dict[str, Any]] = []

        def handle_export(p, r, ident: str, dbl: bool) -> None:
            run.add("evaluations")
            run.add("transitions")
            if is_worker_failure(r) or r.get("status") != "ok":
                return
            run.add("traces_validated_against_impl")
            if not dbl:
                stats["single_scanned"] += 1
                run.state("single|" + ident)
                if r.get("float_places"):
                    run.nontrivial("single|" + ident)
                if r.get("double_places"):
                    run.violation(f"single|{ident}|double_tensor",
                                  f"enable_double_precision=False export contains double-precision data at {r['double_places'][:4]}",
                                  {"kind": "single", "ident": ident, "case": p})
                if any(t in (11, 15) for t in r.get("out_types", [])):
                    run.violation(f"single|{ident}|double_output", "float output declared DOUBLE in a single-precision export",
                                  {"kind": "single", "ident": ident, "case": p})

        def on1(j, r):
            from mc import corpus  # noqa: F401  (root never loads it; pid suffix tells the variant)
            handle_export(j, r, j["pid"], _is_double_pid(j["pid"], r))

        def mk2(j, r):
            if is_worker_failure(r) or r.get("status") != "ok":
                return None
            if not _is_double_pid(j["pid"], r):
                return None
            return {"pid": j["pid"], "path": r["path"], "tier": "c09", "require_all_f64": True}

        for p, r in two_stage(("mc.runners", "export_job"), jobs1, ("mc.runners", "numeric_job"), mk2,
                              on_stage1=on1, timeout1=240, timeout2=300, n1=8, n2=8):
            if is_worker_failure(r):
                run.harness_error(f"oracle {p['pid']}: {r.get('_worker')} {r.get('msg', '')[:150]}")
                continue
            if r.get("skipped"):
                if "float64" in str(r["skipped"]):
                    stats["double_not_all_f64"] += 1
                continue
            stats["double_all_f64"] += 1
            stats["double_cases"] += r["in_domain"]
            run.add("evaluations", r["cases"])
            run.add("transitions", r["in_domain"])
            if r["in_domain"]:
                run.state("double|" + r["pid"])
                run.nontrivial("double|" + r["pid"])
            if len(run.cov["samples"]) < 4 and r["in_domain"]:
                run.sample({"double_program": r["pid"], "cases": r["in_domain"]})
            # precision-specific band only: relative error between 1e-9 and 1e-5 of the tensor scale (an f32 detour costs
            # ~1e-8); larger disagreements are a different function, i.e. C01's business, and are only counted here
            ms = [m for m in r["mismatch"] if m["class"] == "value" and m.get("ratio") is not None and 1.0 < m["ratio"] < 1e4]
            stats["non_precision_mismatches"] = stats.get("non_precision_mismatches", 0) + (len(r["mismatch"]) - len(ms))
            if ms:
                pats = sorted({"+".join(m["patterns"]) for m in ms})
                run.violation(f"double|{r['pid']}|precision", f"{pats[:4]}: {ms[0]['what']}",
                              {"kind": "double", "pid": r["pid"], "observed": ms[:3]}, cases=pats)
        # constant-lattice programs, double mode, oracle side
        with Pool(2, init=("mc.runners", "warm_oracle"), job_timeout=200) as pool:
            for _i, p, r in pool.imap("checks.c09", "job_const_oracle", const_oracle_jobs):
                run.add("evaluations")
                run.add("transitions")
                if is_worker_failure(r):
                    run.harness_error(f"const oracle {p['kind']}: {r}")
                    continue
                run.state("double|const/" + p["kind"])
                run.nontrivial("double|const/" + p["kind"])
                if r.get("diff"):
                    run.violation(f"double|const/{p['kind']}|precision", r["diff"], {"kind": "const", "case": p})
                elif r.get("status") != "ok":
                    run.harness_error(f"const oracle {p['kind']}: {r}")
        run.cov.update(stats)
    finally:
        shutil.rmtree(d, ignore_errors=True)
    return run.finish()


def _is_double_pid(pid: str, r: Dict[str, Any]) -> bool:
    # export_job does not return the flag; the generator marks double variants by testcase name or by what was exported
    return bool(r.get("double")) if "double" in r else pid.endswith("_f64")


def replay(rep: Dict[str, Any]) -> Dict[str, Any]:
    """Re-run exactly one case in fresh processes."""
    kind = rep.get("kind")
    if kind == "flag":
        with Pool(1, init=("mc.runners", "warm_export")) as pool:
            fm = pool.map("checks.c09", "job_flag_matrix", [None])[0]
        row = rep["row"]
        hit = [r for r in fm.get("rows", []) if (r["start"], r["flag"], r["event"]) == (row["start"], row["flag"], row["event"])]
        return {"violation": any(r["after"] != r["start"] for r in hit), "observed": hit}
    d = scratch_dir("c09r")
    try:
        if kind == "single":
            case = rep["case"]
            with Pool(1, init=("mc.runners", "warm_export")) as pool:
                if "kind" in case and "pid" not in case:
                    r = pool.map("checks.c09", "job_const_export", [dict(case, out_dir=None)])[0]
                else:
                    r = pool.map("mc.runners", "export_job", [{"pid": case["pid"]}])[0]
                    r.pop("data", None)
            return {"violation": bool(r.get("double_places")) or any(t in (11, 15) for t in r.get("out_types", [])), "observed": r}
        if kind == "const":
            with Pool(1, init=("mc.runners", "warm_export")) as pool:
                e = pool.map("checks.c09", "job_const_export", [{"kind": rep["case"]["kind"], "double": True, "out_dir": d}])[0]
            with Pool(1, init=("mc.runners", "warm_oracle")) as pool:
                r = pool.map("checks.c09", "job_const_oracle", [{"kind": rep["case"]["kind"], "path": e["path"]}])[0]
            return {"violation": bool(r.get("diff")), "observed": r}
        if kind == "double":
            with Pool(1, init=("mc.runners", "warm_export")) as pool:
                e = pool.map("mc.runners", "export_job", [{"pid": rep["pid"], "out_dir": d}])[0]
            with Pool(1, init=("mc.runners", "warm_oracle")) as pool:
                r = pool.map("mc.runners", "numeric_job", [{"pid": rep["pid"], "path": e["path"], "tier": "c09", "require_all_f64": True}])[0]
            ms = [m for m in r.get("mismatch", []) if m["class"] == "value" and m.get("ratio") is not None and 1.0 < m["ratio"] < 1e4]
            return {"violation": bool(ms), "observed": ms[:3]}
    finally:
        shutil.rmtree(d, ignore_errors=True)
    return {"violation": False, "note": "unknown replay kind", "key": rep.get("key")}
