"""C10 - JAX transformations commute with export.

Enumerated: T in {vmap (batch axis first / last), jit, jit of jit, grad of sum, jvp, vjp, checkpoint, custom_jvp
wrapper, custom_vjp wrapper, vmap of grad} (quick: vmap, jit, grad, jvp) x f in EVERY corpus unit (registered
testcase with one float array input and no runtime parameters -- this covers the substituted library functions one by
one) x lattice input patterns.  T is applied identically in an exporter process (to_onnx(T(f))) and in an oracle
process (eager T(f)); a transformation JAX itself rejects for f is outside the space.
Oracle: ORT(to_onnx(T(f))) == T(f) in eager JAX (C01 budget); an export that raises is a violation unless the error is an
explicit unsupported-feature message.
"""
from __future__ import annotations

import shutil
from typing import Any, Dict, List

from mc.pool import Pool, is_worker_failure
from mc.pipeline import two_stage
from mc.report import Run
from checks.c01 import scratch_dir

PROP = "C10"


def _explicit_unsupported(typ: str, msg: str) -> bool:
    m = msg.lower()
    return typ == "NotImplementedError" or any(t in m for t in ("not supported", "unsupported", "not implemented", "no plugin", "not yet"))


def main(tier: str) -> int:
    run = Run(PROP, tier)
    from mc import transforms
    ts = transforms.QUICK if tier == "quick" else transforms.ALL
    run.cov["transformations"] = ts
    run.cov["rule"] = ("every corpus unit (single float input, no runtime parameters; f32 variants) x every enumerated "
                       "transformation, exported and executed on lattice patterns against the same transformed function in "
                       "eager JAX (separate processes). state = (unit, transformation); transition = export or execution; "
                       "non-trivial = pair that exported and was in-domain for at least one input pattern.")
    run.assumptions += ["eager JAX of the transformed function is the reference", "units = registered testcases with one float array input"]
    if tier == "quick":
        run.cap("quick: transformations {vmap, jit, grad of sum, jvp}; heavy examples excluded")
    d = scratch_dir("c10")
    stats = {"units": 0, "exported": 0, "export_raised_explicit": 0, "jax_rejects": 0, "in_domain_pairs": 0}
    try:
        def jobs1(pool1):
            pids = [q for q in pool1.map("mc.corpus", "pids_job", [tier])[0] if not q.endswith("_f64")]
            if tier == "quick":
                # one unit per registered component (the first single-float-input testcase of each plugin / example);
                # thorough takes every unit.  Whether a program is a unit is decided by the exporter job.
                per_component: Dict[str, List[str]] = {}
                for q in pids:
                    per_component.setdefault("/".join(q.split("/")[:2]), []).append(q)
                pids = [q for qs in per_component.values() for q in (qs if qs[0].startswith("verif.gen/") else qs[:2])]
                run.cap("quick: at most the first two testcases of every component are tried as units")
            return [{"pid": q, "out_dir": d, "transform": t} for q in pids for t in ts]

        units = set()

        def mk2(j, r):
            run.add("evaluations")
            if is_worker_failure(r):
                run.harness_error(f"export {j['pid']} {j['transform']}: {r.get('_worker')} {r.get('msg', '')[:120]}")
                return None
            if r.get("status") == "not_a_unit" or r.get("status") == "build_error":
                return None
            units.add(j["pid"])
            run.add("transitions")
            if r.get("status") == "raise":
                # JAX itself may reject T(f): decided on the oracle side, which evaluates T(f) eagerly
                return {"pid": j["pid"], "path": "", "tier": "c10", "transform": j["transform"], "export_error": [r["type"], r["msg"][:200]]}
            stats["exported"] += 1
            return {"pid": j["pid"], "path": r["path"], "tier": "c10", "transform": j["transform"]}

        for p, r in two_stage(("mc.runners", "export_job"), jobs1, ("checks.c10", "job_oracle"), mk2, timeout1=240, timeout2=300):
            ident = f"{p['pid']}|{p['transform']}"
            if is_worker_failure(r):
                run.harness_error(f"oracle {ident}: {r.get('_worker')} {r.get('msg', '')[:120]}")
                continue
            if r.get("jax_rejects"):
                stats["jax_rejects"] += 1
                continue
            if p.get("export_error"):
                typ, msg = p["export_error"]
                if _explicit_unsupported(typ, msg):
                    stats["export_raised_explicit"] += 1
                else:
                    run.violation(f"{ident}|export_error", f"JAX evaluates {p['transform']}(f) but to_onnx raises {typ}: {msg}",
                                  {"pid": p["pid"], "transform": p["transform"]})
                continue
            if r.get("skipped"):
                continue
            run.add("traces_validated_against_impl")
            run.add("transitions", r["in_domain"])
            if r["in_domain"]:
                stats["in_domain_pairs"] += 1
                run.state(ident)
                run.nontrivial(ident)
            by: Dict[str, List[Dict[str, Any]]] = {}
            for m in r["mismatch"]:
                by.setdefault(m["class"], []).append(m)
            for cls, ms in by.items():
                pats = sorted({"+".join(m["patterns"]) for m in ms})
                run.violation(f"{ident}|{cls}", f"{pats[:4]}: {ms[0]['what']}", {"pid": p["pid"], "transform": p["transform"]}, cases=pats)
            if len(run.cov["samples"]) < 4 and r["in_domain"]:
                run.sample({"unit": p["pid"], "transformation": p["transform"], "cases": r["cases"], "in_domain": r["in_domain"]})
        stats["units"] = len(units)
        run.cov.update(stats)
    finally:
        shutil.rmtree(d, ignore_errors=True)
    return run.finish()


def job_oracle(p: Dict[str, Any]) -> Dict[str, Any]:
    """Oracle side: does JAX accept T(f)?  then the usual numeric comparison."""
    from mc import runners, corpus, transforms
    import numpy as np
    if p.get("export_error") or True:
        tp = corpus.get(p["pid"])
        try:
            fn = corpus.instantiate(tp)
            _s, meta, _v = corpus.input_meta(tp)
            fn_t, meta_t = transforms.apply(fn, meta, p["transform"])
            from mc import lattice
            arrays = [lattice.fill(tuple(sh), lattice.FLOAT_PATTERNS["mixed_small"], dt, offset=k) for k, (sh, dt) in enumerate(meta_t)]
            st, _res = runners.eager(fn_t, arrays, None, False)
            if st != "ok":
                return {"jax_rejects": True}
        except Exception:
            return {"jax_rejects": True}
    if p.get("export_error"):
        return {"jax_accepts": True}
    return runners.numeric_job(p)


def replay(rep: Dict[str, Any]) -> Dict[str, Any]:
    """Re-run one (unit, transformation) pair in a fresh exporter and a fresh oracle process."""
    d = scratch_dir("c10r")
    try:
        with Pool(1, init=("mc.runners", "warm_export")) as pool:
            e = pool.map("mc.runners", "export_job", [{"pid": rep["pid"], "out_dir": d, "transform": rep["transform"]}])[0]
        job = {"pid": rep["pid"], "path": e.get("path", ""), "tier": "c10", "transform": rep["transform"]}
        if e.get("status") == "raise":
            job["export_error"] = [e["type"], e["msg"][:200]]
        with Pool(1, init=("mc.runners", "warm_oracle")) as pool:
            r = pool.map("checks.c10", "job_oracle", [job])[0]
        if job.get("export_error"):
            bad = bool(r.get("jax_accepts")) and not _explicit_unsupported(*job["export_error"])
            return {"violation": bad, "observed": {"export_error": job["export_error"], "oracle": r}}
        return {"violation": bool(r.get("mismatch")), "observed": (r.get("mismatch") or [])[:3]}
    finally:
        shutil.rmtree(d, ignore_errors=True)
