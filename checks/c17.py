"""C17 - cast elimination removes only value-preserving round trips.

Explicit enumeration, black box through the real ``optimize_graph``:
  A. all (source, intermediate) ONNX element-type pairs x graph variants
     (plain, intermediate also a graph output, intermediate with a second
     consumer, source = initializer): the optimizer's *decision* is read off the
     optimized graph (did the Cast pair disappear?).
  B. for every pair the optimizer accepts: EVERY value of the source type
     (<= 16 bit always; 32 bit: all 2^32 in thorough, lattice + seed-rotated
     2^26 stripe in quick; 64 bit: structured lattice) must survive the numpy /
     ml_dtypes round trip bit-exactly (NaN as a class, sign of zero kept).
  C. narrowing integer pairs with statically known sources (Range triples around
     every type boundary, constant arrays, shape-only chains of depth <= 2, and
     chains containing a value-CHANGING op): constant graphs are executed before
     and after optimisation (ORT) and compared bit-exactly, and the folded
     decision is compared with the true min/max of the emitted sequence.
"""
from __future__ import annotations

import itertools
import os
import warnings
from typing import Any, Dict, List, Optional, Tuple

import numpy as np

from mc import gspace as G
from mc.pool import Pool, is_worker_failure
from mc.report import Run, seed

PROP = "C17"


def _all_types() -> List[Tuple[int, str]]:
    import onnx_ir as ir
    out = []
    for d in ir.DataType:
        if d.name in ("UNDEFINED", "STRING"):
            continue
        out.append((int(d), d.name))
    return out


def _np_dtype(code: int):
    import onnx_ir as ir
    return ir.DataType(code).numpy()


def _bits(code: int) -> int:
    import onnx_ir as ir
    return int(ir.DataType(code).bitwidth)


# --------------------------------------------------------------------------
# A. decisions through the real optimizer
# --------------------------------------------------------------------------
VARIANTS = ("plain", "mid_is_output", "mid_two_consumers", "src_is_initializer_input_graph")


def _cast_pair_model(src: int, mid: int, variant: str):
    from onnx import helper
    n = 4
    nodes = [helper.make_node("Cast", ["x"], ["m"], to=mid, name="c1"),
             helper.make_node("Cast", ["m"], ["y"], to=src, name="c2")]
    outputs = [G.vi("y", src, [n])]
    vinfo = [G.vi("m", mid, [n])]
    if variant == "mid_is_output":
        outputs.append(G.vi("m", mid, [n]))
        vinfo = []
    elif variant == "mid_two_consumers":
        nodes.append(helper.make_node("Identity", ["m"], ["m2"], name="id"))
        outputs.append(G.vi("m2", mid, [n]))
    return G.make_model(nodes, [G.vi("x", src, [n])], outputs, value_info=vinfo)


def _count_casts(model) -> int:
    return sum(1 for nd in model.graph.node if nd.op_type == "Cast")


def job_decision(p: Dict[str, Any]) -> Dict[str, Any]:
    """Worker: optimise one Cast-pair graph; report the decision and before/after ORT agreement."""
    src, mid, variant = p["src"], p["mid"], p["variant"]
    model = _cast_pair_model(src, mid, variant)
    try:
        after = G.optimize(model)
    except Exception as e:  # noqa: BLE001
        return {"status": "optimizer_raised", "msg": f"{type(e).__name__}: {e}"[:300]}
    # what feeds output 0 now?
    out0 = after.graph.output[0].name
    producer = next((nd for nd in after.graph.node if out0 in nd.output), None)
    folded = producer is None or producer.op_type != "Cast"
    res = {"status": "ok", "folded": bool(folded), "digest": G.model_digest(after),
           "n_out_before": len(model.graph.output), "n_out_after": len(after.graph.output)}
    # ORT before/after on a probe feed (only when ORT can run the original)
    try:
        dt = _np_dtype(src)
        with warnings.catch_warnings():
            warnings.simplefilter("ignore")
            probe = np.array([0, 1, 3, 2], dtype=np.float64).astype(dt)
        s0, o0 = G.ort_run(model, {"x": probe})
        if s0 == "ok":
            s1, o1 = G.ort_run(after, {"x": probe})
            if s1 != "ok":
                res["ort"] = f"after-model {s1}: {o1}"
            else:
                d = G.same_arrays(o0, o1)
                res["ort"] = "equal" if d is None else "differs: " + d
        else:
            res["ort"] = "unsupported-by-ort"
    except Exception as e:  # noqa: BLE001
        res["ort"] = f"probe-skip {type(e).__name__}"
    return res


# --------------------------------------------------------------------------
# B. exhaustive value round trips
# --------------------------------------------------------------------------
def _lattice64(code: int) -> np.ndarray:
    """Structured lattice of 64-bit patterns: <=3 set bits, extremes, exponent sweep."""
    pats = {0, (1 << 64) - 1, 1 << 63, (1 << 63) - 1}
    for i in range(64):
        pats.add(1 << i)
        pats.add(((1 << 64) - 1) ^ (1 << i))
        for j in range(i):
            pats.add((1 << i) | (1 << j))
            for k in range(0, j, 5):
                pats.add((1 << i) | (1 << j) | (1 << k))
    # all exponents for double with a few mantissas
    for e in range(0, 2048, 1):
        for mant in (0, 1, (1 << 52) - 1, 1 << 51, 1 << 29, (1 << 29) - 1):
            pats.add((e << 52) | mant)
            pats.add((1 << 63) | (e << 52) | mant)
    arr = np.array(sorted(pats), dtype=np.uint64)
    return arr


def _source_values(code: int, lo: int, hi: int) -> np.ndarray:
    """Bit patterns lo..hi-1 of the source type, viewed as that type."""
    dt = _np_dtype(code)
    bits = _bits(code)
    name = str(dt)
    if name == "bool":
        return np.array([False, True])
    if bits < 8:  # int4/uint4/int2/uint2/float4: enumerate by casting small ints
        import ml_dtypes  # noqa: F401
        if "int" in name:
            signed = not name.startswith("u")
            rng = range(-(1 << (bits - 1)), 1 << (bits - 1)) if signed else range(0, 1 << bits)
            return np.array(list(rng), dtype=np.int8).astype(dt)
        return np.arange(1 << bits, dtype=np.uint8).view(dt) if dt.itemsize == 1 else np.array([], dtype=dt)
    if bits == 8:
        return np.arange(lo, hi, dtype=np.uint16).astype(np.uint8).view(dt)
    if bits == 16:
        return np.arange(lo, hi, dtype=np.uint32).astype(np.uint16).view(dt)
    if bits == 32:
        return np.arange(lo, hi, dtype=np.uint64).astype(np.uint32).view(dt)
    if bits == 64 and dt.kind != "c":
        return _lattice64(code).view(dt)
    if dt.kind == "c":  # complex: components from a lattice (declared non-exhaustive)
        comp = np.float32 if dt == np.complex64 else np.float64
        base = np.array([0.0, -0.0, 1.0, -1.5, 3.0e38 if comp == np.float32 else 1e308, 1e-45 if comp == np.float32 else 5e-324,
                         np.inf, -np.inf, np.nan, 16777217.0, 0.1, 1 / 3], dtype=np.float64).astype(comp)
        re, im = np.meshgrid(base, base)
        return (re + 1j * im).astype(dt).reshape(-1)
    raise ValueError(f"no value domain for {name}")


def _bitview(a: np.ndarray) -> np.ndarray:
    a = np.ascontiguousarray(a)
    k = a.dtype.itemsize
    if a.dtype.kind == "c":
        return a.view(np.uint32 if a.dtype == np.complex64 else np.uint64)
    return a.view({1: np.uint8, 2: np.uint16, 4: np.uint32, 8: np.uint64}[k])


def _isnan(a: np.ndarray) -> np.ndarray:
    if a.dtype.kind in "fc":
        return np.isnan(a)
    if a.dtype.kind == "V" or "float" in str(a.dtype):
        try:
            return np.isnan(a.astype(np.float32))
        except Exception:
            return np.zeros(a.shape, bool)
    return np.zeros(a.shape, bool)


def _cast(a: np.ndarray, dt) -> np.ndarray:
    try:
        return a.astype(dt)
    except TypeError:
        # ml_dtypes narrow types do not cast to each other directly; go through an exact wide type
        wide = np.int64 if ("int" in str(a.dtype) or a.dtype.kind in "iub") else np.float64
        return a.astype(wide).astype(dt)


def job_values(p: Dict[str, Any]) -> Dict[str, Any]:
    """Worker: round trip every source bit pattern in [lo,hi) through mid; first mismatch or None."""
    src, mid, lo, hi = p["src"], p["mid"], p["lo"], p["hi"]
    try:
        vals = _source_values(src, lo, hi)
        sdt, mdt = _np_dtype(src), _np_dtype(mid)
        with warnings.catch_warnings():
            warnings.simplefilter("ignore")
            with np.errstate(all="ignore"):
                back = _cast(_cast(vals, mdt), sdt)
    except Exception as e:  # noqa: BLE001
        return {"status": "unevaluable", "msg": f"{type(e).__name__}: {e}"[:200]}
    bv, bb = _bitview(vals), _bitview(back)
    neq = bv != bb
    if vals.dtype.kind == "c":
        comp = np.float32 if vals.dtype == np.complex64 else np.float64
        nan_ok = np.isnan(vals.view(comp)) & np.isnan(back.view(comp))
        neq = neq & ~nan_ok
        neq = neq.reshape(-1, 2).any(axis=1)
    else:
        neq = neq & ~(_isnan(vals) & _isnan(back))
    n_bad = int(neq.sum())
    out = {"status": "ok", "n": int(vals.size), "bad": n_bad}
    if n_bad:
        i = int(np.argmax(neq))
        out["first"] = {"pattern": hex(lo + i) if _bits(src) in (8, 16, 32) else int(i),
                        "value": repr(vals[i]), "roundtrip": repr(back[i])}
    return out


# --------------------------------------------------------------------------
# C. statically-known sources (Range, constants, chains)
# --------------------------------------------------------------------------
INT_TYPES = {"INT8": (-128, 127), "UINT8": (0, 255), "INT16": (-32768, 32767), "UINT16": (0, 65535),
             "INT32": (-2**31, 2**31 - 1), "UINT32": (0, 2**32 - 1)}

CHAINS = [(), ("Identity",), ("Unsqueeze",), ("Reshape",), ("Transpose",), ("Flatten",), ("Expand",),
          ("Unsqueeze", "Squeeze"), ("Reshape", "Transpose"), ("Identity", "Expand"),
          # value-changing ops must block the proof
          ("Neg",), ("AddOne",), ("MulTwo",), ("Identity", "Neg"), ("AddOne", "Unsqueeze")]


def _range_emitted(start: int, limit: int, delta: int) -> Tuple[int, Optional[int], Optional[int]]:
    """ONNX Range spec: n = max(ceil((limit-start)/delta),0); values start+i*delta."""
    n = max(-((limit - start) // -delta), 0) if delta else 0
    if n == 0:
        return 0, None, None
    a, b = start, start + (n - 1) * delta
    return n, min(a, b), max(a, b)


def _apply_chain(nodes, inits, cur: str, chain, tag: str, rank1_len_known: bool):
    from onnx import helper
    k = 0
    for op in chain:
        nxt = f"{tag}_c{k}"
        k += 1
        if op == "Identity":
            nodes.append(helper.make_node("Identity", [cur], [nxt]))
        elif op == "Unsqueeze":
            inits.append(G.const_init(f"{nxt}_ax", np.array([0], np.int64)))
            nodes.append(helper.make_node("Unsqueeze", [cur, f"{nxt}_ax"], [nxt]))
        elif op == "Squeeze":
            inits.append(G.const_init(f"{nxt}_ax", np.array([0], np.int64)))
            nodes.append(helper.make_node("Squeeze", [cur, f"{nxt}_ax"], [nxt]))
        elif op == "Reshape":
            inits.append(G.const_init(f"{nxt}_sh", np.array([-1, 1], np.int64)))
            nodes.append(helper.make_node("Reshape", [cur, f"{nxt}_sh"], [nxt]))
        elif op == "Transpose":
            nodes.append(helper.make_node("Transpose", [cur], [nxt]))
        elif op == "Flatten":
            nodes.append(helper.make_node("Flatten", [cur], [nxt], axis=0))
        elif op == "Expand":
            nodes.append(helper.make_node("Unsqueeze", [cur, f"{nxt}_sh0"], [f"{nxt}_u"]))
            inits.append(G.const_init(f"{nxt}_sh0", np.array([0], np.int64)))
            inits.append(G.const_init(f"{nxt}_sh2", np.array([2, 1], np.int64)))
            nodes.append(helper.make_node("Expand", [f"{nxt}_u", f"{nxt}_sh2"], [nxt]))
        elif op == "Neg":
            nodes.append(helper.make_node("Neg", [cur], [nxt]))
        elif op == "AddOne":
            nodes.append(helper.make_node("Add", [cur, f"{nxt}_one"], [nxt]))
            inits.append(("typed_const", f"{nxt}_one", 1))
        elif op == "MulTwo":
            nodes.append(helper.make_node("Mul", [cur, f"{nxt}_two"], [nxt]))
            inits.append(("typed_const", f"{nxt}_two", 2))
        else:
            raise ValueError(op)
        cur = nxt
    return cur


def _known_source_model(kind: str, src_name: str, mid_name: str, payload, chain):
    """Range(start,limit,delta) or Constant array -> chain -> Cast(mid) -> Cast(src) -> y."""
    from onnx import TensorProto, helper
    src = getattr(TensorProto, src_name)
    mid = getattr(TensorProto, mid_name)
    sdt = _np_dtype(src)
    nodes, inits = [], []
    if kind == "range":
        start, limit, delta = payload
        for nm, v in (("r_start", start), ("r_limit", limit), ("r_delta", delta)):
            inits.append(G.const_init(nm, np.array(v, dtype=sdt)))
        nodes.append(helper.make_node("Range", ["r_start", "r_limit", "r_delta"], ["src"]))
    elif kind == "const_init":
        inits.append(G.const_init("src", np.array(payload, dtype=sdt)))
    elif kind == "const_node":
        nodes.append(helper.make_node("Constant", [], ["src"],
                                      value=G.const_init("cv", np.array(payload, dtype=sdt))))
    cur = _apply_chain(nodes, inits, "src", chain, "k", True)
    inits = [G.const_init(i[1], np.array(i[2], dtype=sdt)) if isinstance(i, tuple) else i for i in inits]
    nodes.append(helper.make_node("Cast", [cur], ["m"], to=mid, name="c1"))
    nodes.append(helper.make_node("Cast", ["m"], ["y"], to=src, name="c2"))
    model = G.make_model(nodes, [], [G.vi("y", src, None)], initializers=inits)
    model = G.annotate(model)
    # make_tensor_value_info(None shape) leaves the output unranked; let inference fill it in
    return model


def job_known(p: Dict[str, Any]) -> Dict[str, Any]:
    kind, src_name, mid_name, payload, chain = p["kind"], p["src"], p["mid"], p["payload"], tuple(p["chain"])
    try:
        model = _known_source_model(kind, src_name, mid_name, payload, chain)
    except Exception as e:  # noqa: BLE001
        return {"status": "build_skip", "msg": f"{type(e).__name__}: {e}"[:200]}
    try:
        after = G.optimize(model)
    except Exception as e:  # noqa: BLE001
        return {"status": "optimizer_raised", "msg": f"{type(e).__name__}: {e}"[:300]}
    out0 = after.graph.output[0].name
    producer = next((nd for nd in after.graph.node if out0 in nd.output), None)
    folded = producer is None or producer.op_type != "Cast"
    s0, o0 = G.ort_run(model, {})
    if s0 != "ok":
        return {"status": "ort_skip", "folded": folded, "msg": str(o0)[:200]}
    s1, o1 = G.ort_run(after, {})
    res = {"status": "ok", "folded": bool(folded), "n": int(np.asarray(o0[0]).size)}
    if s1 != "ok":
        res["diff"] = f"optimised model {s1}: {o1}"
    else:
        d = G.same_arrays(o0, o1)
        if d is not None:
            res["diff"] = d
    # independent statement of the proof obligation
    lo, hi = INT_TYPES[mid_name]
    if folded:
        if kind == "range":
            n, vmin, vmax = _range_emitted(*payload)
        else:
            arr = np.asarray(payload).reshape(-1)
            n, vmin, vmax = arr.size, (int(arr.min()) if arr.size else None), (int(arr.max()) if arr.size else None)
        if n and all(op in ("Identity", "Unsqueeze", "Squeeze", "Reshape", "Transpose", "Flatten", "Expand")
                     for op in chain) and not (lo <= vmin and vmax <= hi):
            res["proof_false"] = f"folded although emitted values [{vmin},{vmax}] exceed {mid_name} [{lo},{hi}]"
    return res


def _boundary_set(lo: int, hi: int, src_lo: int, src_hi: int) -> List[int]:
    s = set(range(-3, 4))
    for c in (lo, hi):
        s.update(range(c - 2, c + 3))
    return sorted(v for v in s if src_lo <= v <= src_hi)


def _known_cases(tier: str) -> List[Dict[str, Any]]:
    cases: List[Dict[str, Any]] = []
    srcs = {"INT64": (-2**63, 2**63 - 1), "INT32": (-2**31, 2**31 - 1)}
    for src, (slo, shi) in srcs.items():
        for mid, (lo, hi) in INT_TYPES.items():
            if src == "INT32" and mid in ("INT32",):
                continue
            B = _boundary_set(lo, hi, slo, shi)
            if tier == "quick":
                B = [v for v in B if abs(v) <= 3 or v in (lo - 1, lo, lo + 1, hi - 1, hi, hi + 1)]
                B = [v for v in B if slo <= v <= shi]
            deltas = [1, -1, 2, -2, 3, -3]
            span = hi - lo
            for start, limit in itertools.product(B, B):
                # keep emitted sequences small: restrict spans to <= 7 steps unless delta jumps the span
                for d in deltas + ([span, -span, span + 1] if span < 2**33 else []):
                    if d == 0:
                        continue
                    n, vmin, vmax = _range_emitted(start, limit, d)
                    if n > 64:
                        continue
                    if not (slo <= start <= shi and slo <= limit <= shi and slo <= d <= shi):
                        continue
                    cases.append({"kind": "range", "src": src, "mid": mid, "payload": [start, limit, d], "chain": []})
            # chains on representative boundary-straddling and fitting ranges
            for chain in CHAINS:
                for (start, limit, d) in ((hi - 2, hi + 1, 1), (hi - 2, hi + 2, 1), (lo + 1, lo - 2, -1),
                                          (lo + 1, lo - 1, -1), (0, 4, 1), (hi - 3, hi + 1, 2), (hi, hi + 1, 1)):
                    if not (slo <= min(start, limit) and max(start, limit) <= shi):
                        continue
                    cases.append({"kind": "range", "src": src, "mid": mid, "payload": [start, limit, d],
                                  "chain": list(chain)})
                for arr in ([lo, hi], [lo - 1, 0], [0, hi + 1], [0, 1, 2], [hi], [lo - 1]):
                    if not all(slo <= v <= shi for v in arr):
                        continue
                    for kind in ("const_init", "const_node"):
                        cases.append({"kind": kind, "src": src, "mid": mid, "payload": arr, "chain": list(chain)})
    return cases


# --------------------------------------------------------------------------
def main(tier: str) -> int:
    run = Run(PROP, tier)
    run.cov["rule"] = ("A: every ordered pair of ONNX element types x 3 graph variants through the real optimize_graph "
                       "(decision read from the optimised graph, before/after run in ORT). B: every accepted pair x every "
                       "bit pattern of the source type (non-trivial = pair accepted by the optimiser AND source != "
                       "intermediate). C: Range/constant sources around every integer type boundary x shape-only and "
                       "value-changing chains, executed before/after (non-trivial = optimiser changed the graph).")
    run.assumptions += ["numpy/ml_dtypes casts implement ONNX Cast on in-range values",
                        "ONNX Runtime CPU kernels for Cast/Range/shape ops", "onnx_ir (de)serialisation"]
    types = _all_types()
    sd = seed()
    accepted: List[Tuple[int, int]] = []
    names = dict(types)
    with Pool(init=("checks.c17", "_warm"), job_timeout=600) as pool:
        # ---- A
        payloads = [{"src": s, "mid": m, "variant": v} for (s, _), (m, _) in itertools.product(types, types)
                    for v in VARIANTS[:3]]
        decisions: Dict[Tuple[int, int], Dict[str, bool]] = {}
        for _i, p, r in pool.imap("checks.c17", "job_decision", payloads):
            run.add("evaluations")
            run.add("traces_validated_against_impl")
            run.add("transitions")
            if is_worker_failure(r):
                run.harness_error(f"decision job {p}: {r}")
                continue
            if r["status"] != "ok":
                run.add("optimizer_raised")
                continue
            run.state("A|" + r["digest"])
            key = (p["src"], p["mid"])
            decisions.setdefault(key, {})[p["variant"]] = r["folded"]
            if r["folded"] and p["src"] != p["mid"]:
                run.nontrivial(f"A|{key}|{p['variant']}")
            if r.get("ort", "").startswith("differs") or r.get("ort", "").startswith("after-model"):
                run.violation(f"A|{names[p['src']]}->{names[p['mid']]}|{p['variant']}|ort",
                              f"optimised Cast graph disagrees with original in ORT: {r['ort']}",
                              {"stage": "A", "case": p, "observed": r})
            if r["n_out_after"] != r["n_out_before"]:
                run.violation(f"A|{names[p['src']]}->{names[p['mid']]}|{p['variant']}|outputs",
                              f"graph output count changed {r['n_out_before']} -> {r['n_out_after']}",
                              {"stage": "A", "case": p, "observed": r})
        for key, d in sorted(decisions.items()):
            if any(d.values()):
                accepted.append(key)
        run.cov["pairs_total"] = len(decisions)
        run.cov["pairs_accepted"] = len(accepted)
        run.cov["accepted_pairs"] = [f"{names[s]}->{names[m]}" for s, m in accepted if s != m]
        run.sample({"stage": "A", "pair": "FLOAT16->FLOAT", "decision": decisions.get((10, 1))})
        run.sample({"stage": "A", "pair": "INT32->FLOAT", "decision": decisions.get((6, 1))})

        # ---- B
        vjobs = []
        for s, m in accepted:
            if s == m:
                continue
            b = _bits(s)
            if b == 32:
                if tier == "thorough":
                    step = 1 << 26
                    for lo in range(0, 1 << 32, step):
                        vjobs.append({"src": s, "mid": m, "lo": lo, "hi": lo + step})
                else:
                    step = 1 << 24
                    # edges of the pattern space + seed-rotated stripes (all stripes are covered by thorough)
                    stripes = {0, 255, 127, 128, (sd * 37 + 11) % 256, (sd * 101 + 63) % 256}
                    for st in sorted(stripes):
                        vjobs.append({"src": s, "mid": m, "lo": st * step, "hi": (st + 1) * step})
                    run.cap("32-bit sources: 6 of 256 bit-pattern stripes in quick tier (all in thorough)")
            elif b == 16:
                vjobs.append({"src": s, "mid": m, "lo": 0, "hi": 1 << 16})
            elif b == 8:
                vjobs.append({"src": s, "mid": m, "lo": 0, "hi": 1 << 8})
            else:
                vjobs.append({"src": s, "mid": m, "lo": 0, "hi": 0})
                if b >= 64:
                    run.cap("64-bit / complex sources: structured lattice only")
        n_vals = 0
        for _i, p, r in pool.imap("checks.c17", "job_values", vjobs):
            run.add("evaluations")
            if is_worker_failure(r):
                run.harness_error(f"value job {p}: {r}")
                continue
            pair = f"{names[p['src']]}->{names[p['mid']]}"
            if r["status"] != "ok":
                run.add("unevaluable_pairs")
                run.harness_error(f"pair {pair} accepted but not evaluable in numpy: {r.get('msg')}")
                continue
            n_vals += r["n"]
            run.state(f"B|{pair}|{p['lo']}")
            if r["bad"]:
                run.violation(f"B|{pair}",
                              f"optimizer drops Cast pair {pair}->{names[p['src']]} but {r['bad']} source values do not "
                              f"survive, first {r['first']}",
                              {"stage": "B", "case": p, "observed": r})
        run.add("transitions", n_vals)
        run.cov["value_roundtrips"] = n_vals
        run.sample({"stage": "B", "jobs": len(vjobs), "example": vjobs[0] if vjobs else None})

        # ---- C
        kcases = _known_cases(tier)
        nfold = 0
        for _i, p, r in pool.imap("checks.c17", "job_known", kcases):
            run.add("evaluations")
            run.add("traces_validated_against_impl")
            run.add("transitions")
            if is_worker_failure(r):
                run.harness_error(f"known-source job {p}: {r}")
                continue
            if r["status"] != "ok":
                run.add("known_" + r["status"])
                continue
            key = f"C|{p['kind']}|{p['src']}->{p['mid']}|{p['payload']}|{'/'.join(p['chain'])}"
            run.state(key + f"|{r['folded']}")
            if r["folded"]:
                nfold += 1
                run.nontrivial(key)
            if "diff" in r:
                run.violation(key, f"constant graph changed value after optimisation: {r['diff']}",
                              {"stage": "C", "case": p, "observed": r})
            elif "proof_false" in r:
                run.violation(key, r["proof_false"], {"stage": "C", "case": p, "observed": r})
        run.cov["known_source_cases"] = len(kcases)
        run.cov["known_source_folded"] = nfold
        run.sample({"stage": "C", "case": kcases[0] if kcases else None})
        run.sample({"stage": "C", "case": kcases[-1] if kcases else None})
    return run.finish()


def _warm():
    import onnxruntime  # noqa: F401
    import onnx_ir  # noqa: F401
    import jax2onnx.converter.ir_optimizations  # noqa: F401


def replay(rep: Dict[str, Any]) -> Dict[str, Any]:
    stage, case = rep["stage"], rep["case"]
    fn = {"A": job_decision, "B": job_values, "C": job_known}[stage]
    out = fn(case)
    viol = bool(out.get("bad") or out.get("diff") or out.get("proof_false")
                or str(out.get("ort", "")).startswith(("differs", "after-model")))
    return {"violation": viol, "observed": out}
