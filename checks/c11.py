"""C11 - the requested opset is honoured.

Enumerated: every corpus program x every target opset in 21..newest (quick: all opsets for one variant per
testcase, {21, newest} for its _dynamic/_f64 siblings) plus the testcase's own opset as baseline.  Per export: declared default-domain import equals the request; every node
in every scope (recursively, function bodies included) has an ONNX schema at that opset admitting its
input/output arity and attribute names (nothing newer); onnx.checker; ORT load where ORT supports that
opset (its own limitations are triaged by message), outputs equal to the baseline-opset export on a
lattice feed (ORT, else the ONNX reference evaluator).  An export that raises is an explicit refusal.
"""
from __future__ import annotations

from typing import Any, Dict, List, Optional

import numpy as np

from mc.pool import Pool, is_worker_failure
from mc.report import Run

PROP = "C11"


def _feeds(tp, model):
    from mc import corpus, lattice, runners
    _specs, meta, _v = corpus.input_meta(tp)
    m_in, _ = runners.model_io(model)
    binding = runners.default_binding(corpus.symbols(meta))
    params = tp.get("input_params") or {}
    pos = [mi for mi in m_in if mi[0] not in params]
    arrays = []
    for k, (sh, dt) in enumerate(meta):
        mdt = pos[k][1] if k < len(pos) and pos[k][1] is not None and np.dtype(dt).kind != "c" else dt
        kind = np.dtype(mdt).kind
        vals = (lattice.FLOAT_PATTERNS["mixed_small"] if kind in "fc" else
                lattice.INT_PATTERNS["small_nonneg"] if kind in "iu" else lattice.BOOL_PATTERNS["alternating"])
        arrays.append(lattice.fill(corpus.bind_shape(sh, binding), vals, mdt, offset=k))
    arrays = runners.apply_domain_rules(tp["pid"], arrays, tp)
    return runners.feeds_for(m_in, arrays, tp)


def _run(model, feeds):
    from mc import runners, gspace as G
    sess = runners.make_session(model.SerializeToString())
    if sess[0] is not None:
        _e, st, res = runners.run_model(sess, feeds, limit=5.0)
        if st == "ok":
            return "ort", [np.asarray(o) for o in res]
        if st == "terminated":
            return "terminated", None
        if "No corresponding Numpy type" not in str(res):
            return "ort_run_error", str(res)[:200]
    s, o = G.ref_run(model, feeds)
    if s == "ok":
        return "ref", o
    return "unrunnable", (str(sess[1])[:150] if sess[0] is None else "") + " | ref: " + str(o)[:150]


def _close(a: List[np.ndarray], b: List[np.ndarray]) -> Optional[str]:
    from mc.compare import _plain
    if len(a) != len(b):
        return f"output count {len(a)} vs {len(b)}"
    for i, (x, y) in enumerate(zip(a, b)):
        x, y = _plain(np.asarray(x)), _plain(np.asarray(y))
        if x.shape != y.shape:
            return f"output {i} shape {x.shape} vs {y.shape}"
        if x.dtype != y.dtype:
            return f"output {i} dtype {x.dtype} vs {y.dtype}"
        if x.dtype.kind in "fc":
            fx, fy = np.isfinite(x), np.isfinite(y)
            if not np.array_equal(fx, fy):
                return f"output {i}: finiteness differs"
            scale = float(np.max(np.abs(x[fx]))) if fx.any() else 1.0
            if fx.any() and not np.allclose(x[fx], y[fx], rtol=1e-4, atol=1e-5 * max(1.0, scale)):
                return f"output {i}: max abs diff {float(np.max(np.abs(x[fx] - y[fx]))):.3e} (scale {scale:.3g})"
        elif not np.array_equal(x, y):
            return f"output {i}: integer/bool values differ"
    return None


def job(p: Dict[str, Any]) -> Dict[str, Any]:
    import hashlib
    import onnx
    from mc import corpus, walker, runners
    tp = corpus.get(p["pid"])
    out: Dict[str, Any] = {"pid": p["pid"], "per_opset": {}, "baseline": None}
    try:
        fn = corpus.instantiate(tp)
    except Exception as e:  # noqa: BLE001
        return {"pid": p["pid"], "skipped": f"build_error {type(e).__name__}"}
    base_opset = tp.get("opset_version", 23)
    random = not corpus.random_free(fn, corpus.input_meta(tp)[1], tp) if p.get("numeric", True) else True
    base_out = None
    feeds = None
    try:
        base = corpus.export(tp, fn)
        if not random:
            feeds = _feeds(tp, base)
            eng, res = _run(base, feeds)
            if eng in ("ort", "ref"):
                base_out = res
            out["baseline"] = eng
    except Exception as e:  # noqa: BLE001
        out["baseline"] = f"raise {type(e).__name__}"
    for o in p["opsets"]:
        rec: Dict[str, Any] = {}
        try:
            m = corpus.export(tp, fn, opset=o)
        except Exception as e:  # noqa: BLE001
            rec["status"] = "refused"
            rec["msg"] = f"{type(e).__name__}: {str(e)[:120]}"
            out["per_opset"][str(o)] = rec
            continue
        rec["status"] = "ok"
        rec["digest"] = hashlib.sha256(m.SerializeToString()).hexdigest()[:14]
        from mc import gspace as G
        rec["ops"] = hashlib.sha256(repr(sorted(G.op_histogram(m).items())).encode()).hexdigest()[:10]
        problems: List[str] = []
        declared = {x.domain: x.version for x in m.opset_import}
        if declared.get("", declared.get("ai.onnx")) != o:
            problems.append(f"declared: model imports default-domain opset {declared.get('')} for request {o}")
        for f in m.functions:
            fd = {x.domain: x.version for x in f.opset_import}
            if "" in fd and fd[""] != o:
                problems.append(f"declared: function {f.name} imports default-domain opset {fd['']} for request {o}")
        problems += ["schema: " + s for s in walker.schema_problems(m, o)[:3]]
        try:
            onnx.checker.check_model(m, full_check=True)
        except Exception as e:  # noqa: BLE001
            problems.append("checker: " + str(e).strip().splitlines()[0][:200])
        if base_out is not None and feeds is not None and o != base_opset:
            eng, res = _run(m, feeds)
            rec["engine"] = eng
            if eng in ("ort", "ref"):
                d = _close(base_out, res)
                if d and eng == "ref" and out["baseline"] == "ort":
                    # compare like with like: the baseline through the reference evaluator as well
                    from mc import gspace as G
                    s_b, o_b = G.ref_run(base, feeds)
                    if s_b == "ok":
                        d = _close(o_b, res)
                        rec["engine"] = "ref-vs-ref"
                    else:
                        d = None
                        rec["unrunnable"] = "baseline not evaluable by the reference evaluator"
                if d:
                    problems.append(f"numeric: differs from the opset-{base_opset} export: {d}")
            elif eng == "ort_run_error":
                problems.append("run: " + str(res))
            elif eng == "unrunnable":
                rec["unrunnable"] = res
        elif o == base_opset or base_out is None:
            sess, err = runners.make_session(m.SerializeToString())
            if sess is None and not walker.ort_limitation(str(err)):
                problems.append("ort_load: " + str(err)[:200])
        rec["problems"] = problems
        out["per_opset"][str(o)] = rec
    return out


def main(tier: str) -> int:
    import onnx
    run = Run(PROP, tier)
    newest = onnx.defs.onnx_opset_version()
    opsets = list(range(21, newest + 1))
    run.cov["opsets"] = opsets
    run.cov["rule"] = ("every corpus program x every enumerated target opset through the real to_onnx; state = digest of "
                       "the exported model; transition = one export; non-trivial = program whose operator "
                       "histogram differs between two enumerated opsets (an opset-gated lowering choice was exercised).")
    run.assumptions += ["onnx.defs schemas of the installed onnx package define what an opset contains",
                        "ORT executes opsets it supports; otherwise the ONNX reference evaluator; numeric agreement "
                        "across opsets judged at rtol 1e-4 (different but equivalent lowerings)"]
    if tier == "quick":
        run.cap("quick: all opsets 21..newest for one variant per testcase, {21, newest} for its _dynamic/_f64 siblings; heavy examples excluded")
    stats = {"exports": 0, "refused": 0, "unrunnable": 0, "compared": 0}
    with Pool(init=("mc.runners", "warm_export"), job_timeout=400) as pool:
        pids = pool.map("mc.corpus", "pids_job", [tier])[0]
        run.cov["programs"] = len(pids)
        if tier == "quick":
            # every opset for one variant of each testcase; the _dynamic / _f64 siblings (same lowering choices) only at the
            # oldest and newest opset.  thorough: every opset for every variant.
            def _sibling(q: str) -> bool:
                leaf = q.split("/")[-1]
                return leaf.endswith("_f64") or "_dynamic" in leaf
            jobs = [{"pid": p, "opsets": ([21, newest] if _sibling(p) else opsets)} for p in pids]
        else:
            jobs = [{"pid": p, "opsets": opsets} for p in pids]
        for _i, p, r in pool.imap("checks.c11", "job", jobs):
            if is_worker_failure(r):
                run.harness_error(f"{p['pid']}: {r.get('_worker')} {r.get('msg', '')[:150]}")
                continue
            if r.get("skipped"):
                continue
            digests = set()
            for o, rec in r["per_opset"].items():
                run.add("evaluations")
                run.add("transitions")
                if rec["status"] != "ok":
                    stats["refused"] += 1
                    continue
                stats["exports"] += 1
                run.add("traces_validated_against_impl")
                run.state(rec["digest"])
                digests.add(rec.get("ops", rec["digest"]))
                if rec.get("engine") in ("ort", "ref", "ref-vs-ref"):
                    stats["compared"] += 1
                if rec.get("unrunnable"):
                    stats["unrunnable"] += 1
                by_cls: Dict[str, str] = {}
                for pr in rec["problems"]:
                    by_cls.setdefault(pr.split(":")[0], pr)
                for cls, msg in by_cls.items():
                    run.violation(f"{r['pid']}@opset{o}|{cls}", msg, {"pid": r["pid"], "opsets": [int(o)]})
            if len(digests) > 1:
                run.nontrivial(r["pid"])
            if len(run.cov["samples"]) < 4:
                run.sample({"program": r["pid"], "per_opset": {o: rec.get("status") + ":" + str(rec.get("engine"))
                                                               for o, rec in r["per_opset"].items()}})
    run.cov.update(stats)
    return run.finish()


def replay(rep: Dict[str, Any]) -> Dict[str, Any]:
    with Pool(1, init=("mc.runners", "warm_export")) as pool:
        r = pool.map("checks.c11", "job", [{"pid": rep["pid"], "opsets": rep["opsets"]}])[0]
    cls = rep["key"].rsplit("|", 1)[1]
    rec = r.get("per_opset", {}).get(str(rep["opsets"][0]), {})
    bad = any(pr.split(":")[0] == cls for pr in rec.get("problems", []))
    return {"violation": bad, "observed": rec}
