"""C03 - every export is a well-formed, loadable ONNX model.

Enumerated: every corpus program at its own configuration (quick) x opsets {21, 24, newest}
(thorough), plus the nesting-tree grammar: all words of length <= 2 (3 thorough) over
{while, fori, scan, cond, onnx_function, onnx_function(unique)} x 4 body variants x
{concrete, symbolic batch}.  Oracle: onnx.checker full check, strict shape inference, ORT
session creation, and the independent scope/SSA/function walker.  An export that raises is
outside this property (nothing is returned).
"""
from __future__ import annotations

from typing import Any, Dict, List

from mc.pool import Pool, is_worker_failure
from mc.report import Run

PROP = "C03"


def job_corpus(p: Dict[str, Any]) -> Dict[str, Any]:
    import onnx
    from mc import corpus, walker, runners
    tp = corpus.get(p["pid"])
    r = runners.export_job({"pid": p["pid"], "overrides": p.get("overrides") or {}})
    if r.get("status") != "ok":
        return {"status": r.get("status"), "type": r.get("type"), "msg": r.get("msg", "")[:200]}
    model = onnx.load_model_from_string(r["data"])
    rep = walker.structural_report(model)
    return {"status": "ok", "problems": rep["problems"], "ort": rep["ort"], "nodes": r["nodes"],
            "digest": __import__("hashlib").sha256(r["data"]).hexdigest()[:16],
            "nested": sum(1 for _w, n in walker.iter_all_nodes(model) if n.op_type in ("Loop", "If", "Scan")),
            "functions": len(model.functions)}


def job_nest(case: Dict[str, Any]) -> Dict[str, Any]:
    import hashlib
    from jax2onnx import to_onnx
    from mc import grammars, walker
    try:
        fn = grammars.nest_program(case["word"], case["variant"])
        model = to_onnx(fn, grammars.nest_spec(case), enable_double_precision=case.get("double", False),
                        opset=case.get("opset", 23))
    except Exception as e:  # noqa: BLE001
        return {"status": "raise", "type": type(e).__name__, "msg": str(e)[:200]}
    rep = walker.structural_report(model)
    data = model.SerializeToString()
    return {"status": "ok", "problems": rep["problems"], "ort": rep["ort"], "nodes": len(model.graph.node),
            "digest": hashlib.sha256(data).hexdigest()[:16],
            "nested": sum(1 for _w, n in walker.iter_all_nodes(model) if n.op_type in ("Loop", "If", "Scan")),
            "functions": len(model.functions)}


def _classify(problems: List[str], ort: str) -> Dict[str, str]:
    out: Dict[str, str] = {}
    for pr in problems:
        cls = pr.split(":")[0]
        out.setdefault(cls, pr)
    if ort.startswith("load_error"):
        out.setdefault("ort_load", ort)
    return out


def main(tier: str) -> int:
    run = Run(PROP, tier)
    from mc import grammars
    run.cov["rule"] = ("corpus: every expanded testcase exported at its own configuration (thorough: also opsets 21, 24 and "
                       "newest); grammar: all nesting words up to the depth bound x body variants x {concrete, symbolic}. "
                       "state = digest of the exported model; transition = one to_onnx call; non-trivial = exported model "
                       "containing a nested graph (Loop/If/Scan) or a function.")
    run.assumptions += ["onnx.checker / strict shape inference / ORT session creation as validity oracles",
                        "an export that raises returns nothing and is outside this property"]
    depth = 2 if tier == "quick" else 3
    with Pool(init=("mc.runners", "warm_export"), job_timeout=300) as pool:
        pids = pool.map("mc.corpus", "pids_job", [tier])[0]
        jobs: List[Dict[str, Any]] = [{"kind": "corpus", "pid": p} for p in pids]
        if tier == "thorough":
            import onnx
            newest = onnx.defs.onnx_opset_version()
            for o in (21, 24, newest):
                jobs += [{"kind": "corpus", "pid": p, "overrides": {"opset": o}} for p in pids]
        else:
            run.cap("quick: corpus at each testcase's own opset only; nesting depth <= 2; heavy examples excluded")
        ncases = grammars.nest_cases(depth)
        if tier == "thorough":
            ncases = ncases + [dict(c, double=True) for c in grammars.nest_cases(2)]
        run.cov["programs"] = len(pids)
        run.cov["nest_cases"] = len(ncases)
        stats = {"exported": 0, "raised": 0, "ort_load_error": 0}

        def handle(kind: str, ident: str, p: Dict[str, Any], r: Dict[str, Any]) -> None:
            run.add("evaluations")
            run.add("transitions")
            if is_worker_failure(r):
                run.harness_error(f"{kind} {ident}: {r.get('_worker')} {r.get('msg', '')[:150]}")
                return
            if r["status"] != "ok":
                stats["raised"] += 1
                return
            stats["exported"] += 1
            if r["ort"].startswith("ort_limitation"):
                stats["ort_limitation"] = stats.get("ort_limitation", 0) + 1
            run.add("traces_validated_against_impl")
            run.state(r["digest"])
            if r["nested"] or r["functions"]:
                run.nontrivial(r["digest"])
            for cls, msg in _classify(r["problems"], r["ort"]).items():
                run.violation(f"{kind}|{ident}|{cls}", msg, {"kind": kind, "case": p})

        for _i, p, r in pool.imap("checks.c03", "job_corpus", jobs):
            ident = p["pid"] + ("" if not p.get("overrides") else "@" + ",".join(f"{k}={v}" for k, v in sorted(p["overrides"].items())))
            handle("corpus", ident, p, r)
        for _i, p, r in pool.imap("checks.c03", "job_nest", ncases):
            ident = "/".join(p["word"]) + f"|{p['variant']}|{'sym' if p['symbolic'] else 'concrete'}" + ("|f64" if p.get("double") else "")
            handle("nest", ident, p, r)
            if len(run.cov["samples"]) < 4 and not is_worker_failure(r):
                run.sample({"nest": ident, "status": r["status"], "nodes": r.get("nodes"), "nested": r.get("nested")})
        run.cov.update(stats)
    return run.finish()


def replay(rep: Dict[str, Any]) -> Dict[str, Any]:
    with Pool(1, init=("mc.runners", "warm_export")) as pool:
        fn = "job_corpus" if rep["kind"] == "corpus" else "job_nest"
        r = pool.map("checks.c03", fn, [rep["case"]])[0]
    cls = rep["key"].rsplit("|", 1)[1]
    bad = r.get("status") == "ok" and cls in _classify(r["problems"], r["ort"])
    return {"violation": bool(bad), "observed": r}
