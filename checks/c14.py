"""C14 - export is deterministic and independent of history.

Enumerated on the real to_onnx: requests R (plain function, loop+cond, symbolic dims, NCHW layout flags with a
residual add, shared / unique @onnx_function, two input_params reaching a function, nnx module with nested
function modules, transpose-heavy graph) x every prefix history of length <= 2 over R + failing conversions x
repetition 1..3; x PYTHONHASHSEED values in separate processes; x plugin import order {filesystem, reversed};
x every iteration order of the set()-built collections of the optimizer (deviation-bounded choice tree).
Oracle: SHA-256 of SerializeToString(deterministic=True) equals the digest of the same request in a fresh
default process.
"""
from __future__ import annotations

import hashlib
import itertools
import os
from typing import Any, Dict, List, Optional

import numpy as np

from mc.pool import Pool, is_worker_failure
from mc.report import Run
from mc.explorer import Chooser, explore, ExploreStats

PROP = "C14"

REQUESTS = ["simple", "loop_cond", "symbolic", "layout", "fn_shared", "fn_unique", "two_params", "nnx_nested",
            "transposes", "conv_nchw", "nchw_residual", "three_params_implicit"]
FAILING = ["raise_trace", "raise_lowering", "raise_in_fn_body", "raise_bad_args"]


def _request(name: str):
    """-> (fn, specs, kwargs) built deterministically."""
    import jax
    import jax.numpy as jnp
    from jax import lax
    from mc import c14_targets as T
    if name == "simple":
        return (lambda x, y: jnp.sin(x) * y + jnp.sum(x, axis=-1, keepdims=True)), [(2, 3), (2, 3)], {}
    if name == "loop_cond":
        return (lambda x: lax.fori_loop(0, 3, lambda i, c: lax.cond(jnp.sum(c) > 0, lambda v: v * 0.5, lambda v: v + 1.0, c), x)), [(2, 3)], {}
    if name == "symbolic":
        return (lambda x, y: (x * 2.0 + jnp.mean(x, axis=0)) @ y), [("B", 3), (3, "N")], {}
    if name == "layout":
        return (lambda a, b: (jnp.transpose(jax.nn.relu(a + b), (0, 1, 2, 3)) * 2.0, a - b)), [(1, 4, 4, 3), (1, 4, 4, 3)], \
            {"inputs_as_nchw": [0, 1], "outputs_as_nchw": [0, 1]}
    if name == "fn_shared":
        return (lambda x: T.shared_block(x) + T.shared_block(x * 2.0)), [(2, 3)], {}
    if name == "fn_unique":
        return (lambda x: T.unique_block(x) + T.unique_block(x * 2.0)), [(2, 3)], {}
    if name == "two_params":
        return (lambda x, scale=2.0, flag=True: T.param_block(x, scale=scale, flag=flag) + 1.0), [(2, 3)], \
            {"input_params": {"scale": np.float32(2.0), "flag": True}}
    if name == "nnx_nested":
        m = T.Outer()
        return (lambda x: m(x)), [("B", 3)], {}
    if name == "transposes":
        def f(a, b):
            ta, tb = jnp.transpose(a, (0, 3, 1, 2)), jnp.transpose(b, (0, 3, 1, 2))
            s = ta + tb
            u = s + ta
            return jnp.transpose(u, (0, 2, 3, 1)), jnp.transpose(s, (0, 2, 3, 1))
        return f, [(1, 4, 4, 3), (1, 4, 4, 3)], {}
    if name == "nchw_residual":
        def f(a, b):
            ta, tb = jnp.transpose(a, (0, 3, 1, 2)), jnp.transpose(b, (0, 3, 1, 2))
            s = jax.nn.relu(ta + tb)
            return jnp.transpose(s + ta, (0, 2, 3, 1)) * 2.0
        return f, [(1, 2, 2, 3), (1, 2, 2, 3)], {"inputs_as_nchw": [0], "outputs_as_nchw": [0]}
    if name == "three_params_implicit":
        return (lambda x, alpha=1.0, beta=2.0, gamma=3.0: T.implicit_block(x) + alpha + beta + gamma), [(2, 3)], \
            {"input_params": {"alpha": np.float32(1.0), "beta": np.float32(2.0), "gamma": np.float32(3.0)}}
    if name == "conv_nchw":
        from flax import nnx
        conv = nnx.Conv(3, 4, kernel_size=(3, 3), rngs=nnx.Rngs(0))
        return (lambda x: nnx.relu(conv(x)) + 1.0), [("B", 8, 8, 3)], {"inputs_as_nchw": [0], "outputs_as_nchw": [0]}
    raise ValueError(name)


def _digest(model) -> str:
    return hashlib.sha256(model.SerializeToString(deterministic=True)).hexdigest()


def _convert(name: str) -> str:
    from jax2onnx import to_onnx
    fn, specs, kw = _request(name)
    return _digest(to_onnx(fn, specs, **kw))


def _fail(ev: str) -> None:
    from checks import c13
    c13._event({"cold_counter": 0}, ev)


def _warm() -> None:
    import logging
    logging.disable(logging.WARNING)
    import jax  # noqa: F401
    import jax2onnx  # noqa: F401
    from mc import c14_targets  # noqa: F401


def job_fresh(p: Dict[str, Any]) -> Dict[str, Any]:
    """One request in a process that has done nothing else; the process exits afterwards."""
    if p.get("reverse_import"):
        _reverse_import()
    try:
        d = _convert(p["request"])
        out = {"digest": d}
    except Exception as e:  # noqa: BLE001
        out = {"error": f"{type(e).__name__}: {str(e)[:200]}"}
    out["_retire"] = True
    return out


def _reverse_import() -> None:
    """Import every plugin module in reversed file order before the converter discovers them."""
    import importlib
    import pathlib
    import jax2onnx.plugins as pl
    root = pathlib.Path(pl.__file__).parent
    mods = []
    for py in sorted(root.rglob("*.py"), reverse=True):
        if py.name in ("plugin_system.py", "__init__.py"):
            continue
        rel = py.relative_to(root).with_suffix("")
        mods.append("jax2onnx.plugins." + ".".join(rel.parts))
    for m in mods:
        try:
            importlib.import_module(m)
        except Exception:
            pass


def job_history(p: Dict[str, Any]) -> Dict[str, Any]:
    """prefix events, then the request `reps` times; digests of every repetition."""
    out: Dict[str, Any] = {"digests": [], "prefix_outcomes": []}
    for ev in p["prefix"]:
        try:
            if ev in FAILING:
                _fail(ev)
                out["prefix_outcomes"].append("failed-as-intended")
            else:
                _convert(ev)
                out["prefix_outcomes"].append("ok")
        except Exception as e:  # noqa: BLE001
            out["prefix_outcomes"].append(type(e).__name__)
    for _ in range(p.get("reps", 1)):
        try:
            out["digests"].append(_convert(p["request"]))
        except Exception as e:  # noqa: BLE001
            out["digests"].append(f"error {type(e).__name__}: {str(e)[:150]}")
    return out


# ---- set iteration order control ------------------------------------------------------------------
class _Ctl:
    chooser: Optional[Chooser] = None
    points = 0


def _make_controlled_set():
    class ControlledSet(set):
        def __iter__(self):
            items = list(set.__iter__(self))
            ch = _Ctl.chooser
            if ch is None or len(items) < 2:
                return iter(items)
            # canonical base order (by a stable attribute) so that choices mean the same in every execution
            try:
                items.sort(key=lambda n: (getattr(n, "name", None) or "", getattr(n, "op_type", "")))
            except Exception:
                pass
            n = len(items)
            _Ctl.points += 1
            k = ch.pick(f"set-order[{n}]", list(range(n + 1)))
            if k == n:
                items = list(reversed(items))
            else:
                items = items[k:] + items[:k]
            return iter(items)
    return ControlledSet


def job_set_orders(p: Dict[str, Any]) -> Dict[str, Any]:
    """All iteration orders (rotations + reversal at every iteration point, deviation-bounded) of the optimizer's
    set()-built collections, for one request; every execution must yield the reference digest of this process."""
    import jax2onnx.converter.ir_optimizations as opt
    name, bound = p["request"], p["bound"]
    ref = _convert(name)
    had = "set" in vars(opt)
    old = vars(opt).get("set")
    opt.set = _make_controlled_set()
    stats = ExploreStats()
    digests: Dict[str, List[int]] = {}
    max_points = 0
    try:
        def body(ch: Chooser):
            _Ctl.chooser = ch
            _Ctl.points = 0
            try:
                return _convert(name)
            finally:
                _Ctl.chooser = None

        for ex in explore(body, bound=bound, stats=stats, max_executions=p.get("max_exec", 400)):
            digests.setdefault(ex.result, ex.vector)
            max_points = max(max_points, len(ex.vector))
    finally:
        if had:
            opt.set = old
        else:
            try:
                del opt.set
            except Exception:
                pass
    return {"ref": ref, "digests": digests, "executions": stats.executions, "transitions": stats.transitions,
            "max_points": max_points, "capped": stats.capped}


def main(tier: str) -> int:
    run = Run(PROP, tier)
    run.cov["rule"] = ("requests x prefix histories (length <= 2 over requests + failing conversions) x repetitions 1..3, "
                       "x hash seeds (separate processes), x plugin import order, x set iteration orders in the optimizer "
                       "(rotations/reversal at every iteration point, deviation-bounded). state = (history, digest); "
                       "transition = one to_onnx call; non-trivial = history with a non-empty prefix, a non-default seed / "
                       "import order, or a set-order execution with >= 1 controlled iteration point.")
    run.assumptions += ["SerializeToString(deterministic=True) is the canonical form",
                        "hash seeds outside the enumerated list are not explored"]
    seeds = [0, 1, 2, 3] if tier == "quick" else list(range(16))
    import threading
    side: Dict[str, List[Any]] = {}

    def side_pool(tag: str, env: Dict[str, str], payloads: List[Dict[str, Any]], offset: int, fn: str) -> None:
        out = []
        try:
            with Pool(1, init=("checks.c14", "_warm"), job_timeout=400, env=env, core_offset=offset) as pool:
                for _i, p, r in pool.imap("checks.c14", fn, payloads):
                    out.append((p, r))
        except Exception as e:  # noqa: BLE001
            out.append(({}, {"_worker": "exception", "msg": str(e)}))
        side[tag] = out

    # side processes (each a fresh interpreter): reversed plugin import order, and one per extra hash seed
    threads = [threading.Thread(target=side_pool, args=("reversed-import", {}, [{"requests": REQUESTS, "reverse_import": True}], 12, "job_all"))]
    first_wave = seeds[1:4]
    for k, sd in enumerate(first_wave):
        threads.append(threading.Thread(target=side_pool, args=(f"seed{sd}", {"PYTHONHASHSEED": str(sd)}, [{"requests": REQUESTS}], 13 + k, "job_all")))
    for t in threads:
        t.start()

    ref: Dict[str, str] = {}
    with Pool(12, init=("checks.c14", "_warm"), job_timeout=300) as pool:
        # 1. reference digests: the FIRST conversion of ten distinct fresh worker processes (repeated 3x right away)
        for _i, p, r in pool.imap("checks.c14", "job_history", [{"request": q, "prefix": [], "reps": 3, "first": True} for q in REQUESTS]):
            run.add("evaluations")
            if is_worker_failure(r) or not r.get("digests") or r["digests"][0].startswith("error"):
                run.harness_error(f"reference export of {p['request']} failed: {str(r)[:200]}")
                continue
            run.add("transitions", 3)
            run.add("traces_validated_against_impl")
            ref[p["request"]] = r["digests"][0]
            run.state(f"{p['request']}|{r['digests'][0][:12]}")
            for k, d in enumerate(r["digests"][1:]):
                if d != r["digests"][0]:
                    run.violation(f"{p['request']}|after:-|rep{k + 2}", f"repetition {k + 2} in a fresh process gives {d[:40]} instead of {r['digests'][0][:16]}",
                                  {"kind": "history", "case": {"request": p["request"], "prefix": [], "reps": 3}})
        run.cov["requests"] = sorted(ref)
        if not ref:
            run.harness_error("no reference export succeeded: nothing can be decided")
            run.finish()
            return 2
        run.cov["t_fresh_s"] = round(__import__("time").time() - run.t0, 1)
        # 2. histories
        alphabet = list(ref) + FAILING
        prefixes: List[List[str]] = [[a] for a in alphabet]
        fn_reqs = [q for q in ("fn_shared", "fn_unique", "two_params", "nnx_nested") if q in ref]
        if tier == "quick":
            pairs = [[a, b] for a in FAILING for b in fn_reqs] + [[b, a] for a in FAILING for b in fn_reqs]
            run.cap("quick: length-2 prefixes pair a failing conversion with a function-bearing one (both orders); 4 hash seeds")
        else:
            pairs = [[a, b] for a in alphabet for b in alphabet]
        jobs = [{"request": q, "prefix": pre, "reps": 3} for q in ref for pre in prefixes]
        jobs += [{"request": q, "prefix": pre, "reps": 1} for q in ref for pre in pairs]
        run.cov["histories"] = len(jobs) + len(ref)
        for _i, p, r in pool.imap("checks.c14", "job_history", jobs):
            run.add("evaluations")
            if is_worker_failure(r):
                run.harness_error(f"history {p}: {r.get('_worker')} {r.get('msg', '')[:120]}")
                continue
            run.add("traces_validated_against_impl")
            run.add("transitions", len(p["prefix"]) + len(r["digests"]))
            run.nontrivial(f"{p['request']}|{'/'.join(p['prefix'])}")
            for k, d in enumerate(r["digests"]):
                run.state(f"{p['request']}|{d[:12]}")
                if d != ref[p["request"]]:
                    run.violation(f"{p['request']}|after:{'/'.join(p['prefix']) or '-'}|rep{k + 1}",
                                  f"request {p['request']} after prefix {p['prefix']} (repetition {k + 1}) gives {d[:40]} instead of {ref[p['request']][:16]}",
                                  {"kind": "history", "case": p})
                    break
            if len(run.cov["samples"]) < 3:
                run.sample({"request": p["request"], "prefix": p["prefix"], "digests": [d[:12] for d in r["digests"]]})
        run.cov["t_histories_s"] = round(__import__("time").time() - run.t0, 1)
        # 3. set iteration orders
        bound = 1 if tier == "quick" else 2
        sjobs = [{"request": q, "bound": bound, "max_exec": 300 if tier == "quick" else 3000}
                 for q in ("transposes", "layout", "conv_nchw", "nchw_residual", "nnx_nested", "fn_shared") if q in ref]
        for _i, p, r in pool.imap("checks.c14", "job_set_orders", sjobs):
            if is_worker_failure(r):
                run.harness_error(f"set orders {p['request']}: {r.get('_worker')} {r.get('msg', '')[:150]}")
                continue
            run.add("evaluations", r["executions"])
            run.add("transitions", r["transitions"])
            run.add("traces_validated_against_impl", r["executions"])
            if r["capped"]:
                run.cap("set-order exploration capped by max executions")
            if r["max_points"]:
                run.nontrivial(f"setorder|{p['request']}")
            run.sample({"set_orders": p["request"], "executions": r["executions"], "iteration_points": r["max_points"],
                        "distinct_digests": len(r["digests"])})
            for d, vec in r["digests"].items():
                if d != ref[p["request"]]:
                    run.violation(f"{p['request']}|set-order", f"iteration order {vec} of a set()-built collection changes the model: {d[:16]} vs {ref[p['request']][:16]}",
                                  {"kind": "setorder", "case": p, "vector": vec})
        run.cov["t_setorders_s"] = round(__import__("time").time() - run.t0, 1)
    for t in threads:
        t.join()
    # remaining seeds (thorough) in further waves of single-process pools
    rest = seeds[4:]
    for i in range(0, len(rest), 8):
        ths = [threading.Thread(target=side_pool, args=(f"seed{sd}", {"PYTHONHASHSEED": str(sd)}, [{"requests": REQUESTS}], k, "job_all"))
               for k, sd in enumerate(rest[i:i + 8])]
        for t in ths:
            t.start()
        for t in ths:
            t.join()
    for tag, items in sorted(side.items()):
        for p, r in items:
            if is_worker_failure(r):
                run.harness_error(f"{tag}: {r.get('_worker')} {str(r.get('msg', ''))[:150]}")
                continue
            for q, d in r.get("digests", {}).items():
                run.add("evaluations")
                run.add("transitions")
                run.add("traces_validated_against_impl")
                run.nontrivial(f"{q}|{tag}")
                if q in ref and d != ref[q]:
                    kind = "seed" if tag.startswith("seed") else "fresh"
                    run.violation(f"{q}|{'PYTHONHASHSEED=' + tag[4:] if kind == 'seed' else tag}",
                                  f"digest {d[:40]} != reference {ref[q][:16]} (default process)",
                                  {"kind": kind, "seed": int(tag[4:]) if kind == "seed" else 0, "case": {"request": q, "reverse_import": kind != "seed"}})
    run.cov["hash_seeds"] = seeds
    return run.finish()


def job_all(p: Dict[str, Any]) -> Dict[str, Any]:
    """All requests in one (fresh) process, optionally after importing the plugins in reversed order."""
    if p.get("reverse_import"):
        _reverse_import()
    out: Dict[str, str] = {}
    for q in p["requests"]:
        try:
            out[q] = _convert(q)
        except Exception as e:  # noqa: BLE001
            out[q] = f"error {type(e).__name__}: {str(e)[:120]}"
    return {"digests": out}


def replay(rep: Dict[str, Any]) -> Dict[str, Any]:
    env = {"PYTHONHASHSEED": str(rep["seed"])} if rep.get("kind") == "seed" else {}
    with Pool(1, init=("checks.c14", "_warm"), env=env) as pool:
        ref = pool.map("checks.c14", "job_fresh", [{"request": rep["case"]["request"]}])[0]
    with Pool(1, init=("checks.c14", "_warm"), env=env) as pool:
        if rep.get("kind") == "setorder":
            r = pool.map("checks.c14", "job_set_orders", [rep["case"]])[0]
            return {"violation": len(r.get("digests", {})) > 1, "observed": {"digests": list(r.get("digests", {}))}}
        fn = "job_fresh" if rep.get("kind") == "fresh" else "job_history"
        r = pool.map("checks.c14", fn, [rep["case"]])[0]
    got = r.get("digest") or (r.get("digests") or [None])
    return {"violation": (got != ref.get("digest")) if isinstance(got, str) else any(g != ref.get("digest") for g in got),
            "reference": ref, "observed": r}
