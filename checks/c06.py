"""C06 - control flow is preserved for every branch choice and trip count.

Enumerated (P-gen(cf)): cond with input / computed predicate, 2-way integer switch, while with a trip count from
an input and with a data-dependent exit, fori with static N in {0,1,2,3} and lower in {0,2}, scan over
L in {0,1,2,3} with 0/1/2 scanned inputs, 1-2 carries, with/without stacked outputs, two scans of different
lengths sharing a captured value, x loop bodies whose arithmetic goes through the lowerings that consult the
loop-extent override (slice, dynamic_slice, broadcast, concatenate, scatter) and that capture constants / outer
tracers / carry an int next to a float, x all ordered depth-2 nestings; x steering inputs: predicate in {F,T},
n in {-1,0,1,2,3,5}, switch index in {-1..3}, thresholds giving exit after 0/1/k iterations, both signs of data.
Oracle: ORT output == eager JAX bit-exactly (exact arithmetic), including carried values, stacked outputs and
their shapes for zero-length cases.  An export that raises is a loud refusal (counted, not a violation).
"""
from __future__ import annotations

from typing import Any, Dict, List

import numpy as np

from mc.pool import Pool, is_worker_failure
from mc.report import Run

PROP = "C06"


def _describe(a) -> str:
    a = np.asarray(a)
    if a.ndim == 0:
        return str(a.item())
    if a.size == 0:
        return f"empty{a.shape}"
    return f"arr{a.shape}[0]={float(a.reshape(-1)[0])}"


def job(desc: Dict[str, Any]) -> Dict[str, Any]:
    import hashlib
    import jax
    import jax.numpy as jnp
    from jax2onnx import to_onnx
    from mc import cfgrammar, gspace as G
    fn, specs, feeds = cfgrammar.build(desc)
    expected = []
    for args in feeds:
        try:
            res = fn(*[jnp.asarray(a) for a in args])
            expected.append([np.asarray(v) for v in jax.tree_util.tree_leaves(jax.device_get(res))])
        except Exception as e:  # noqa: BLE001
            expected.append(None)
    try:
        model = to_onnx(fn, specs)
    except Exception as e:  # noqa: BLE001
        return {"status": "refused", "type": type(e).__name__, "msg": str(e)[:150]}
    names = [i.name for i in model.graph.input]
    bad: List[str] = []
    ran = 0
    distinct = set()
    for args, exp in zip(feeds, expected):
        if exp is None:
            continue
        feed = {n: np.asarray(a) for n, a in zip(names, args)}
        steer = [_describe(a) for a in args]
        st, out = G.ort_run(model, feed)
        ran += 1
        if st != "ok":
            bad.append(f"steering {steer}: model {st}: {str(out)[:120]}")
            continue
        distinct.add(hashlib.sha256(b"".join(np.asarray(o).tobytes() for o in out)).hexdigest()[:8])
        if len(out) != len(exp):
            bad.append(f"steering {steer}: {len(out)} outputs vs {len(exp)} leaves")
            continue
        for k, (o, e) in enumerate(zip(out, exp)):
            o = np.asarray(o)
            if o.shape != e.shape:
                bad.append(f"steering {steer}: output {k} shape {o.shape} vs JAX {e.shape}")
                break
            if (o.dtype.kind in "fc") != (e.dtype.kind in "fc") or (o.dtype.kind == "b") != (e.dtype.kind == "b"):
                bad.append(f"steering {steer}: output {k} dtype {o.dtype} vs JAX {e.dtype}")
                break
            if not np.array_equal(o.astype(np.float64), e.astype(np.float64)):
                bad.append(f"steering {steer}: output {k} = {o.reshape(-1)[:4]} vs JAX {e.reshape(-1)[:4]}")
                break
    return {"status": "ok", "bad": bad[:4], "n_bad": len(bad), "ran": ran, "distinct_outputs": len(distinct),
            "digest": hashlib.sha256(model.SerializeToString()).hexdigest()[:14],
            "steer": [str([_describe(a) for a in args]) for args in feeds][:12]}


def main(tier: str) -> int:
    run = Run(PROP, tier)
    from mc import cfgrammar
    from checks.c15 import _warm  # noqa: F401
    cases = cfgrammar.cases(tier)
    run.cov["rule"] = ("every program of the control-flow grammar x every steering input (predicate, trip count, index, "
                       "threshold, data sign); state = (program digest, steering input); transition = one model execution; "
                       "non-trivial = program whose outputs differ between steering inputs (a different branch / trip count "
                       "was actually taken).")
    run.assumptions += ["eager JAX evaluated before the conversion in the same worker is the reference for these plain lax programs"]
    run.cov["programs"] = len(cases)
    refused: Dict[str, int] = {}
    with Pool(init=("checks.c15", "_warm"), job_timeout=300) as pool:
        for _i, p, r in pool.imap("checks.c06", "job", cases):
            run.add("evaluations")
            ident = cfgrammar.ident(p)
            if is_worker_failure(r):
                run.harness_error(f"{ident}: {r.get('_worker')} {r.get('msg', '')[:150]}")
                continue
            if r["status"] == "refused":
                refused[r["type"]] = refused.get(r["type"], 0) + 1
                continue
            run.add("traces_validated_against_impl")
            run.add("transitions", r["ran"])
            run.add("states", r["ran"])
            if r["distinct_outputs"] > 1:
                run.nontrivial(ident)
            if r["bad"]:
                run.violation(ident, f"{r['n_bad']} steering input(s): {r['bad'][0]}", {"case": p})
            if len(run.cov["samples"]) < 4:
                run.sample({"program": ident, "steering_inputs": r["steer"], "executions": r["ran"]})
    run.cov["refused_at_export"] = refused
    return run.finish()


def replay(rep: Dict[str, Any]) -> Dict[str, Any]:
    from checks.c15 import _warm
    _warm()
    r = job(rep["case"])
    return {"violation": bool(r.get("bad")), "observed": r}
