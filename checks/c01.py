"""C01 - the exported model computes the same function as the JAX callable.

Bounded exhaustive exploration on the implementation: every corpus program
(every registered plugin/example testcase, expanded like the project's generator)
x every combination of value-lattice input patterns (negative, zero, half-integer,
large, tiny, index-edge integers, booleans), plus generated compositions (typed
unit pairs).  Exporter and oracle run in different processes; floats are judged
against float64 eager JAX with budget K*max(|j32-r64|, ulp32); integers/bools
bit-exact; ORT disagreements are triaged with the ONNX reference evaluator.
"""
from __future__ import annotations

import os
import shutil
import tempfile
from typing import Any, Dict, List

from mc.pool import Pool, is_worker_failure
from mc.pipeline import two_stage
from mc.report import Run, seed, ROOT

PROP = "C01"


def scratch_dir(tag: str) -> str:
    base = os.path.join(ROOT, "scratch")
    os.makedirs(base, exist_ok=True)
    return tempfile.mkdtemp(prefix=f"{tag}-", dir=base)


def select_programs(tier: str) -> List[str]:
    from mc import corpus
    allp = corpus.pids()
    if tier == "quick":
        return [p for p in allp if not corpus.is_heavy(p)]
    return allp


def export_all(pool_env, pids: List[str], out_dir: str, run: Run, overrides=None, timeout=240):
    """Phase 1 (exporter processes). -> {pid: result}"""
    results: Dict[str, Dict[str, Any]] = {}
    with Pool(init=("mc.runners", "warm_export"), job_timeout=timeout, env=pool_env) as pool:
        jobs = [{"pid": p, "out_dir": out_dir, "overrides": overrides or {}} for p in pids]
        for _i, p, r in pool.imap("mc.runners", "export_job", jobs):
            results[p["pid"]] = r
    return results


def main(tier: str) -> int:
    run = Run(PROP, tier)
    from mc import compare
    run.cov["rule"] = ("programs = every expanded testcase of PLUGIN_REGISTRY/EXAMPLE_REGISTRY in the working tree (quick: "
                       "heavy ViT/DINO/GPT examples excluded); inputs = every combination of lattice patterns per input "
                       "(<=64 per program, pairwise cover above). state = (program, pattern combination); transition = one "
                       "export or one model execution; non-trivial = program in-domain for >=1 combination AND its outputs "
                       "differ between combinations.")
    run.cov["K"] = compare.K
    run.assumptions += ["eager JAX (f32 and f64) with no plugin active is the reference",
                        "ONNX Runtime CPU, graph optimisations off; ONNX ReferenceEvaluator as second opinion",
                        "inputs outside the value lattice are not explored"]
    if tier == "quick":
        run.cap("quick tier: heavy example programs (ViT/DINO/GPT) excluded; 4 float / 4 int patterns per input")
    d = scratch_dir("c01")
    try:
        exp: Dict[str, Dict[str, Any]] = {}
        agg = {"cases": 0, "in_domain": 0, "ood": 0, "random": 0, "unloadable": 0, "skipped": 0, "ort_divergence": 0,
               "nonterminating": 0}
        worst = 0.0
        slow: List[Any] = []

        def jobs1(pool1):
            pids = pool1.map("mc.corpus", "pids_job", [tier])[0]
            run.cov["programs"] = len(pids)
            jobs = [{"pid": p, "out_dir": d} for p in pids]
            # generated compositions, part 1: mixed-dtype variants (one float argument at a time given as int32) of the
            # jnp / lax / nn primitive testcases.  quick explores a seed-rotated third, thorough all of them.
            variants = pool1.map("mc.corpus", "dtype_variant_job", [(tier, seed())])[0]
            run.cov["mixed_dtype_variants"] = len(variants)
            if tier == "quick":
                run.cap("quick: a seed-rotated third of the mixed-dtype variants (all in thorough)")
            jobs += [{"pid": p, "out_dir": d, "dtype_override": ov} for p, ov in variants]
            return jobs

        def on1(j, r):
            exp[j["pid"]] = r
            run.add("transitions")

        def mk2(j, r):
            if r.get("status") != "ok":
                return None
            run.add("traces_validated_against_impl")
            return {"pid": j["pid"], "path": r["path"], "tier": tier, "dtype_override": j.get("dtype_override")}

        for p, r in two_stage(("mc.runners", "export_job"), jobs1, ("mc.runners", "numeric_job"), mk2,
                              on_stage1=on1, timeout1=240, timeout2=300):
            if True:
                if is_worker_failure(r):
                    run.harness_error(f"oracle job {p['pid']}: {r.get('_worker')} {r.get('msg', '')[:200]}")
                    continue
                run.add("evaluations", r["cases"])
                run.add("transitions", r["in_domain"])
                agg["cases"] += r["cases"]
                agg["in_domain"] += r["in_domain"]
                agg["ood"] += r["ood"]
                agg["ort_divergence"] += len(r["ort_divergence"])
                agg["nonterminating"] += r.get("nonterminating", 0)
                if r["skipped"] == "random":
                    agg["random"] += 1
                elif r["skipped"]:
                    agg["skipped"] += 1
                if r["ort_unloadable"]:
                    agg["unloadable"] += 1
                if r["capped"]:
                    run.cap("pattern combinations capped at 64 for programs with many inputs (pairwise cover)")
                worst = max(worst, r["worst"])
                slow.append((r.get("elapsed_s", 0), r.get("prep_s", 0), r["pid"], r["cases"]))
                if r["in_domain"]:
                    run.state(r["pid"] + str(p.get("dtype_override") or ""))
                if r["nontrivial"]:
                    run.nontrivial(r["pid"] + str(p.get("dtype_override") or ""))
                if r["in_domain"] and len(run.cov["samples"]) < 4:
                    run.sample({"program": r["pid"], "cases": r["cases"], "in_domain": r["in_domain"],
                                "pointwise": r.get("pointwise"), "worst_ratio": round(r["worst"], 2)})
                by_class: Dict[str, List[Dict[str, Any]]] = {}
                for m in r["mismatch"]:
                    by_class.setdefault(m["class"], []).append(m)
                suffix = "" if not p.get("dtype_override") else "#" + ",".join(f"in{k}:{v}" for k, v in sorted(p["dtype_override"].items()))
                for cls, ms in by_class.items():
                    key = f"{r['pid']}{suffix}|{cls}"
                    pats = sorted({"+".join(m["patterns"]) for m in ms})
                    run.violation(key, f"{len(ms)} input pattern combination(s) {pats[:6]}: {ms[0]['what']}",
                                  {"kind": "corpus", "pid": r["pid"], "tier": tier, "class": cls, "dtype_override": p.get("dtype_override"),
                                   "patterns": ms[0]["patterns"], "observed": ms[:5]}, cases=pats)
        run.cov["exported"] = sum(1 for r in exp.values() if r.get("status") == "ok")
        run.cov["export_raised"] = sum(1 for r in exp.values() if r.get("status") == "raise")
        run.cov["export_harness"] = sum(1 for r in exp.values() if is_worker_failure(r))
        run.cov.update(agg)
        run.cov["slowest_jobs"] = sorted(slow, reverse=True)[:12]
        run.cov["oracle_cpu_s"] = round(sum(x[0] for x in slow), 1)
        run.cov["worst_ratio_observed"] = round(worst, 2)
        run.add("states", agg["in_domain"])
    finally:
        shutil.rmtree(d, ignore_errors=True)
    return run.finish()


def replay(rep: Dict[str, Any]) -> Dict[str, Any]:
    """Fresh two-process protocol for one program."""
    d = scratch_dir("c01r")
    try:
        with Pool(1, init=("mc.runners", "warm_export")) as pool:
            e = pool.map("mc.runners", "export_job", [{"pid": rep["pid"], "out_dir": d, "dtype_override": rep.get("dtype_override")}])[0]
        if e.get("status") != "ok":
            return {"violation": False, "export": e}
        with Pool(1, init=("mc.runners", "warm_oracle")) as pool:
            r = pool.map("mc.runners", "numeric_job", [{"pid": rep["pid"], "path": e["path"], "tier": rep.get("tier", "quick"), "dtype_override": rep.get("dtype_override")}])[0]
        bad = [m for m in r.get("mismatch", []) if m["class"] == rep.get("class")]
        return {"violation": bool(bad), "observed": bad[:3], "summary": {k: r[k] for k in ("cases", "in_domain", "ood")}}
    finally:
        shutil.rmtree(d, ignore_errors=True)
