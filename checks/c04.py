"""C04 - symbolic-shape exports are correct for every binding of the symbols.

Enumerated: (i) the shape grammar: 37 programs over up to three symbols (products, sums, floor division, modulo,
max/min of dimensions, x.shape[i] as a value, reshape / concatenate / pad / tile / repeat / arange / eye / broadcast
by a dimension, (B,N)+(1,N), (B,N)+(B,1), (B,N)^T(B,N), inputs sharing / not sharing a symbol), each exported ONCE and
then executed for EVERY assignment of {1,2,3,5,7} (quick {1,2,3,5}) to its symbols -- size 1, equal and unequal pairs,
primes; (ii) every corpus program with symbolic dimensions, exported once, executed for every assignment.
Oracle: ORT runtime shapes and values == eager JAX on arrays of that size (grammar: integer-valued data, bit-exact;
corpus: the C01 float budget).  A binding JAX itself rejects is outside the space; an export that raises is a loud
refusal.
"""
from __future__ import annotations

import itertools
import shutil
from typing import Any, Dict, List

import numpy as np

from mc.pool import Pool, is_worker_failure
from mc.pipeline import two_stage
from mc.report import Run
from checks.c01 import scratch_dir

PROP = "C04"


def _sizes(tier: str) -> List[int]:
    return [1, 2, 3, 5] if tier == "quick" else [1, 2, 3, 5, 7]


def job_grammar(p: Dict[str, Any]) -> Dict[str, Any]:
    import hashlib
    import jax
    import jax.numpy as jnp
    from jax2onnx import to_onnx
    from mc import shapegrammar as SG, gspace as G
    name = p["program"]
    fn, specs = SG.build(name)
    syms = SG.symbols(specs)
    bindings = [dict(zip(syms, vals)) for vals in itertools.product(p["sizes"], repeat=len(syms))]
    expected = []
    for b in bindings:
        args = [SG.data(tuple(b[d] if isinstance(d, str) else d for d in sh), k) for k, sh in enumerate(specs)]
        try:
            e = [np.asarray(v) for v in jax.tree_util.tree_leaves(jax.device_get(fn(*[jnp.asarray(a) for a in args])))]
        except Exception:
            e = None
        expected.append((args, e))
    try:
        model = to_onnx(fn, [tuple(sh) for sh in specs])
    except Exception as e:  # noqa: BLE001
        return {"status": "refused", "type": type(e).__name__, "msg": str(e)[:150]}
    names = [i.name for i in model.graph.input]
    declared = [[(d.dim_param or d.dim_value) for d in i.type.tensor_type.shape.dim] for i in model.graph.input]
    bad: List[str] = []
    ran = 0
    shapes_seen = set()
    for b, (args, e) in zip(bindings, expected):
        if e is None:
            continue
        st, out = G.ort_run(model, dict(zip(names, args)))
        ran += 1
        if st != "ok":
            bad.append(f"binding {b}: model {st}: {str(out)[:120]}")
            continue
        for k, (o, ee) in enumerate(zip(out, e)):
            o = np.asarray(o)
            shapes_seen.add(o.shape)
            if o.shape != ee.shape:
                bad.append(f"binding {b}: output {k} shape {o.shape} vs JAX {ee.shape}")
                break
            o64, e64 = o.astype(np.float64), ee.astype(np.float64)
            # integers exact; floats within a few ulp (XLA turns x/7 into x*(1/7): s/B*B is not bit-stable for B=7),
            # a wrong dimension value changes results grossly
            same = np.array_equal(o64, e64) if ee.dtype.kind not in "fc" else np.allclose(o64, e64, rtol=2e-6, atol=1e-6, equal_nan=True)
            if not same:
                bad.append(f"binding {b}: output {k} = {o.reshape(-1)[:4]} vs JAX {ee.reshape(-1)[:4]}")
                break
    return {"status": "ok", "bad": bad[:4], "n_bad": len(bad), "ran": ran, "bindings": len(bindings),
            "distinct_shapes": len(shapes_seen), "declared_inputs": declared,
            "digest": hashlib.sha256(model.SerializeToString()).hexdigest()[:14]}


def job_corpus_bindings(p: Dict[str, Any]) -> Dict[str, Any]:
    """Oracle worker: one exported symbolic corpus program, every binding."""
    from mc import runners, corpus
    tp = corpus.get(p["pid"])
    _s, meta, _v = corpus.input_meta(tp)
    syms = corpus.symbols(meta)
    out = {"pid": p["pid"], "bindings": 0, "in_domain": 0, "mismatch": [], "skipped": None, "symbols": syms}
    for vals in itertools.product(p["sizes"], repeat=len(syms)):
        b = dict(zip(syms, vals))
        r = runners.numeric_job({"pid": p["pid"], "path": p["path"], "tier": "c04", "binding": b})
        if r.get("skipped"):
            out["skipped"] = r["skipped"]
            break
        out["bindings"] += 1
        out["in_domain"] += r["in_domain"]
        for m in r["mismatch"]:
            if m["class"] == "ort_run_error" and r["in_domain"] == 0:
                continue
            out["mismatch"].append({"binding": b, "class": m["class"], "what": m["what"][:200]})
    return out


def main(tier: str) -> int:
    run = Run(PROP, tier)
    from mc import shapegrammar as SG
    from checks.c15 import _warm  # noqa: F401
    sizes = _sizes(tier)
    run.cov["sizes"] = sizes
    run.cov["rule"] = ("each symbolic program exported once, then executed for every assignment of the size set to its "
                       "symbols; state = (program, binding); transition = one model execution; non-trivial = program whose "
                       "output shape differs between bindings.")
    run.assumptions += ["eager JAX on concrete arrays of the bound sizes is the reference", "sizes outside the enumerated set are not explored"]
    if tier == "quick":
        run.cap("quick: sizes {1,2,3,5}; corpus programs with more than two symbols limited to sizes {1,2,3}")
    # (i) grammar
    with Pool(init=("checks.c15", "_warm"), job_timeout=300) as pool:
        refused: Dict[str, int] = {}
        for _i, p, r in pool.imap("checks.c04", "job_grammar", [{"program": n, "sizes": sizes} for n in SG.PROGRAMS]):
            run.add("evaluations")
            if is_worker_failure(r):
                run.harness_error(f"grammar {p['program']}: {r.get('_worker')} {r.get('msg', '')[:150]}")
                continue
            if r["status"] == "refused":
                refused[p["program"]] = r["type"]
                continue
            run.add("traces_validated_against_impl")
            run.add("transitions", r["ran"])
            run.add("states", r["ran"])
            if r["distinct_shapes"] > 1:
                run.nontrivial("grammar|" + p["program"])
            if r["bad"]:
                run.violation(f"grammar|{p['program']}", f"{r['n_bad']} of {r['bindings']} bindings: {r['bad'][0]}",
                              {"kind": "grammar", "case": p})
            if len(run.cov["samples"]) < 3:
                run.sample({"program": p["program"], "bindings": r["bindings"], "declared_inputs": r["declared_inputs"]})
        run.cov["grammar_refused"] = refused
    # (ii) symbolic corpus programs
    d = scratch_dir("c04")
    try:
        def jobs1(pool1):
            pids = pool1.map("mc.corpus", "pids_job", [tier])[0]
            sym = [q for q in pids if q.endswith("_dynamic") or "_dynamic_" in q or "dynamic" in q.split("/")[-1] or "symbolic" in q]
            run.cov["symbolic_corpus_programs"] = len(sym)
            return [{"pid": q, "out_dir": d} for q in sym]

        def mk2(j, r):
            if is_worker_failure(r) or r.get("status") != "ok":
                return None
            return {"pid": j["pid"], "path": r["path"], "sizes": sizes if tier != "quick" else [1, 2, 3]}

        for p, r in two_stage(("mc.runners", "export_job"), jobs1, ("checks.c04", "job_corpus_bindings"), mk2, timeout1=240, timeout2=400):
            run.add("evaluations")
            if is_worker_failure(r):
                run.harness_error(f"corpus {p['pid']}: {r.get('_worker')} {r.get('msg', '')[:150]}")
                continue
            if r["skipped"]:
                continue
            run.add("traces_validated_against_impl")
            run.add("transitions", r["in_domain"])
            run.add("states", r["bindings"])
            if r["bindings"] > 1 and r["in_domain"]:
                run.nontrivial("corpus|" + r["pid"])
            groups: Dict[str, List[Dict[str, Any]]] = {}
            for m in r["mismatch"]:
                groups.setdefault(m["class"], []).append(m)
            for cls, ms in list(groups.items()):
                distinct_bindings = {str(sorted(m["binding"].items())) for m in ms}
                if cls in ("value", "nonfinite") and len(distinct_bindings) >= r["bindings"]:
                    # fails for EVERY binding alike: a value-level disagreement (C01's business), not a property of the binding
                    run.add("value_mismatches_independent_of_binding")
                    del groups[cls]
            for cls, ms in groups.items():
                run.violation(f"corpus|{r['pid']}|{cls}", f"{len(ms)} binding(s), e.g. {ms[0]['binding']}: {ms[0]['what']}",
                              {"kind": "corpus", "pid": r["pid"]}, cases=sorted({str(sorted(m['binding'].items())) for m in ms}))
    finally:
        shutil.rmtree(d, ignore_errors=True)
    return run.finish()


def replay(rep: Dict[str, Any]) -> Dict[str, Any]:
    from checks.c15 import _warm
    _warm()
    if rep.get("kind") == "grammar":
        r = job_grammar(rep["case"])
        return {"violation": bool(r.get("bad")), "observed": r}
    return {"violation": False, "note": "re-run ./check C04 for corpus cases", "key": rep.get("key")}
