"""C02 - the export-time optimizer never changes what a model computes.

Explicit-state exploration of the *G-space*: every small ONNX graph over the
operator vocabulary the rewrite rules match on (per rewrite family), x every
non-empty choice of graph outputs containing the final value, x shape-annotation
mode (concrete / one symbol / all-symbolic distinct names / absent).  Each graph
is a state; the transition is the REAL ``optimize_graph`` (whole pipeline, and
pass by pass when something differs or in the thorough tier); the oracle runs
the model before and after in ONNX Runtime on two all-distinct feeds and
compares outputs bit-exactly (count, order, dtype, runtime shape, values); the
optimised model must still load.  Second part: every fast corpus export, taken
before optimisation, is pushed through the pipeline the same way (C02 part 2 is
run by checks/c02 via mc.corpus when available).
"""
from __future__ import annotations

import itertools
import os
from typing import Any, Dict, List, Optional, Sequence, Tuple

import numpy as np

from mc import gspace as G
from mc.explorer import Chooser, explore, ExploreStats, split_prefixes
from mc.pool import Pool, is_worker_failure
from mc.report import Run, seed

PROP = "C02"

NP = {"f32": np.float32, "f64": np.float64, "bool": np.bool_, "i64": np.int64, "i32": np.int32}
ELEM = {"f32": 1, "f64": 11, "bool": 9, "i64": 7, "i32": 6, "f16": 10}

PERMS = {
    2: {"F": (1, 0), "I": (1, 0)},
    3: {"F": (1, 2, 0), "I": (2, 0, 1), "O": (0, 2, 1)},
    4: {"F": (0, 3, 1, 2), "I": (0, 2, 3, 1), "O": (0, 2, 1, 3)},
}
BASE_SHAPE = {2: (2, 3), 3: (2, 3, 4), 4: (2, 3, 4, 5)}


class GB:
    """Tiny graph builder tracking shapes/dtypes so only well-typed nodes are offered."""

    def __init__(self, rank: int, opset: int = G.OPSET, in_dt: str = "f32"):
        self.rank, self.opset = rank, opset
        self.nodes: List[Any] = []
        self.inits: List[Any] = []
        self.inputs: List[Dict[str, Any]] = []
        self.vals: List[Dict[str, Any]] = []  # node outputs + inputs usable as sources
        self.desc: List[str] = []
        self.k = 0
        x = self.new_input(BASE_SHAPE[rank], in_dt)
        self.vals.append(x)

    def new_input(self, shape, dt) -> Dict[str, Any]:
        v = {"name": f"in{len(self.inputs)}", "shape": tuple(shape), "dt": dt, "input": True}
        self.inputs.append(v)
        return v

    def const(self, arr: np.ndarray) -> str:
        name = f"c{len(self.inits)}"
        self.inits.append(G.const_init(name, arr))
        return name

    def fresh(self, shape, dt) -> Dict[str, Any]:
        self.k += 1
        v = {"name": f"v{self.k}", "shape": tuple(shape), "dt": dt, "input": False}
        self.vals.append(v)
        return v

    def node(self, op: str, ins: Sequence[str], out_shape, out_dt, desc: str, **attrs) -> Dict[str, Any]:
        from onnx import helper
        v = self.fresh(out_shape, out_dt)
        self.nodes.append(helper.make_node(op, list(ins), [v["name"]], name=f"n{len(self.nodes)}", **attrs))
        self.desc.append(desc)
        return v

    # -------- side operands for binary ops
    def side(self, kind: str, like: Dict[str, Any]) -> Optional[str]:
        shp, dt = like["shape"], like["dt"]
        npdt = NP[dt]
        if kind == "sc":
            return self.const(np.array(1.5, dtype=npdt))
        if kind == "vec":
            n = shp[-1]
            return self.const((np.arange(n, dtype=npdt) * 2 - 1))
        if kind == "col":  # broadcast along the first axis: shape (d0,1,...,1)
            n = shp[0]
            return self.const((np.arange(n, dtype=npdt) * 3 - 2).reshape((n,) + (1,) * (len(shp) - 1)))
        if kind == "full":
            n = int(np.prod(shp))
            return self.const(((np.arange(n, dtype=npdt) * 7) % 11 - 4).reshape(shp))
        if kind == "inp":
            return self.new_input(shp, dt)["name"]
        if kind.startswith("prev:"):
            j = int(kind[5:])
            return self.vals[j]["name"]
        raise ValueError(kind)


def _feeds(inputs: List[Dict[str, Any]], which: int) -> Dict[str, np.ndarray]:
    out = {}
    for j, v in enumerate(inputs):
        n = int(np.prod(v["shape"])) if v["shape"] else 1
        if v["dt"] == "bool":
            out[v["name"]] = ((np.arange(n) + which + j) % 2 == 0).reshape(v["shape"])
            continue
        base = np.arange(n, dtype=np.float64)
        if which == 0:
            a = base * 0.5 - n / 4.0 + j
        else:
            a = ((base * 7 + 3 * j) % n) - n / 2.0 + 0.25 * (base % 3)
        out[v["name"]] = a.reshape(v["shape"]).astype(NP[v["dt"]])
    return out


# --------------------------------------------------------------------------
# families: options(g, i, N) -> list of option tuples ; apply(g, opt)
# --------------------------------------------------------------------------
UNARY = ("Relu", "Neg", "Tanh")
BIN = ("Add", "Mul", "Max", "Sub", "Min")


def _bcast_ok(kind: str, shp) -> bool:
    return True


def opts_T(g: GB, i: int, N: int, ctx: Dict[str, Any]) -> List[Tuple]:
    nT = sum(1 for d in g.desc if d.startswith("T"))
    need = max(0, 2 - nT)
    remaining = N - i
    opts: List[Tuple] = []
    srcs = list(range(len(g.vals)))
    if ctx.get("chain"):
        srcs = srcs[-2:]
    for s in srcs:
        v = g.vals[s]
        if len(v["shape"]) != g.rank:
            continue
        for p in PERMS[g.rank]:
            opts.append(("T", s, p))
    if need >= remaining:
        return opts
    for s in srcs:
        v = g.vals[s]
        if v["dt"] not in ("f32", "f64"):
            continue
        for u in ctx["unary"]:
            opts.append(("U", s, u))
        for b in ctx["binary"]:
            for kind in ctx["sides"]:
                opts.append(("B", s, b, kind))
            for j in srcs:
                w = g.vals[j]
                if j <= s and w["shape"] == v["shape"] and w["dt"] == v["dt"] and not (j == s and b == "Sub"):
                    if b in ctx["prev_binary"]:
                        opts.append(("B", s, b, f"prev:{j}"))
        if ctx.get("clip"):
            opts.append(("Clip", s))
        if ctx.get("cast") and v["dt"] == "f32":
            opts.append(("Cast", s, "f64"))
        if len(v["shape"]) == g.rank and g.rank >= 2:
            for kd in ctx.get("reduce", ()):
                opts.append(("RM", s, kd))
        if ctx.get("softmax"):
            opts.append(("Softmax", s))
    return opts


def apply_opt(g: GB, o: Tuple) -> None:
    kind = o[0]
    v = g.vals[o[1]]
    if kind == "T":
        perm = PERMS[g.rank][o[2]]
        shp = tuple(v["shape"][p] for p in perm)
        g.node("Transpose", [v["name"]], shp, v["dt"], f"T{o[2]}({o[1]})", perm=list(perm))
    elif kind == "U":
        g.node(o[2], [v["name"]], v["shape"], v["dt"], f"{o[2]}({o[1]})")
    elif kind == "B":
        side = g.side(o[3], v)
        g.node(o[2], [v["name"], side], v["shape"], v["dt"], f"{o[2]}({o[1]},{o[3]})")
    elif kind == "Clip":
        lo = g.const(np.array(-1.0, dtype=NP[v["dt"]]))
        hi = g.const(np.array(2.0, dtype=NP[v["dt"]]))
        g.node("Clip", [v["name"], lo, hi], v["shape"], v["dt"], f"Clip({o[1]})")
    elif kind == "Cast":
        g.node("Cast", [v["name"]], v["shape"], o[2], f"Cast{o[2]}({o[1]})", to=ELEM[o[2]])
    elif kind == "RM":
        keep = o[2]
        axes = [1]
        shp = list(v["shape"])
        if keep:
            shp[1] = 1
        else:
            del shp[1]
        ax = g.const(np.array(axes, np.int64))
        g.node("ReduceMean", [v["name"], ax], tuple(shp), v["dt"], f"RM{keep}({o[1]})", keepdims=keep)
    elif kind == "Softmax":
        g.node("Softmax", [v["name"]], v["shape"], v["dt"], f"Softmax({o[1]})", axis=-1)
    elif kind == "R":
        tgt = o[2]
        shp = v["shape"]
        n = int(np.prod(shp))
        base = BASE_SHAPE[g.rank]
        if tgt == "flat":
            spec, new = [-1], (n,)
        elif tgt == "base":
            spec, new = list(base), base
        elif tgt == "swap":
            new = tuple(reversed(base))
            spec = list(new)
        elif tgt == "same":
            spec, new = list(shp), shp
        elif tgt == "zero":
            new = (shp[0], n // shp[0])
            spec = [0, -1]
        elif tgt == "m1":
            new = shp
            spec = [-1] + list(shp[1:])
        else:
            raise ValueError(tgt)
        if int(np.prod(new)) != n:
            raise _Invalid()
        sh = g.const(np.array(spec, np.int64))
        g.node("Reshape", [v["name"], sh], tuple(new), v["dt"], f"R{tgt}({o[1]})")
    elif kind == "Shape":
        g.node("Shape", [v["name"]], (len(v["shape"]),), "i64", f"Shape({o[1]})")
    elif kind == "Sigmoid":
        g.node("Sigmoid", [v["name"]], v["shape"], v["dt"], f"Sigmoid({o[1]})")
    elif kind == "Mulp":
        w = g.vals[o[2]]
        g.node("Mul", [v["name"], w["name"]], v["shape"], v["dt"], f"Mul({o[1]},{o[2]})")
    elif kind == "Not":
        g.node("Not", [v["name"]], v["shape"], "bool", f"Not({o[1]})")
    elif kind == "Drop":
        # o = ("Drop", data_idx, tm_kind)
        ratio = g.const(np.array(0.5, np.float32))
        tmk = o[2]
        if tmk == "absent":
            ins = [v["name"]]
        elif tmk == "ratio_only":
            ins = [v["name"], ratio]
        elif tmk in ("constF", "constT"):
            ins = [v["name"], ratio, g.const(np.array(tmk == "constT"))]
        else:  # "val:j"
            ins = [v["name"], ratio, g.vals[int(tmk[4:])]["name"]]
        # fixed seed: a Dropout in training mode is then a deterministic function of its input
        g.node("Dropout", ins, v["shape"], v["dt"], f"Drop({o[1]},{tmk})", seed=7)
    elif kind == "ConstB":
        from onnx import helper
        w = g.fresh((), "bool")
        g.nodes.append(helper.make_node("Constant", [], [w["name"]], name=f"n{len(g.nodes)}",
                                        value=G.const_init("cb", np.array(bool(o[2])))))
        g.desc.append(f"ConstB({o[2]})")
    else:
        raise ValueError(kind)


class _Invalid(Exception):
    pass


def opts_R(g: GB, i: int, N: int, ctx) -> List[Tuple]:
    nR = sum(1 for d in g.desc if d.startswith("R"))
    need = max(0, ctx.get("min_trigger", 2) - nR)
    remaining = N - i
    opts: List[Tuple] = []
    srcs = list(range(len(g.vals)))
    if ctx.get("chain"):
        srcs = srcs[-2:]
    for s in srcs:
        for tgt in ctx["reshapes"]:
            if tgt in ("zero",) and len(g.vals[s]["shape"]) < 1:
                continue
            opts.append(("R", s, tgt))
    if need >= remaining:
        return opts
    for s in srcs:
        v = g.vals[s]
        if v["dt"] not in ("f32", "f64"):
            continue
        for u in ctx["unary"]:
            opts.append(("U", s, u))
        for b in ctx["binary"]:
            for kind in ctx["sides"]:
                opts.append(("B", s, b, kind))
        if ctx.get("clip"):
            opts.append(("Clip", s))
        if ctx.get("cast") and v["dt"] == "f32":
            opts.append(("Cast", s, "f64"))
        if ctx.get("shape"):
            opts.append(("Shape", s))
    return opts


def opts_S(g: GB, i: int, N: int, ctx) -> List[Tuple]:
    opts: List[Tuple] = []
    srcs = list(range(len(g.vals)))
    for s in srcs:
        v = g.vals[s]
        if v["dt"] != "f32":
            continue
        opts.append(("Sigmoid", s))
        opts.append(("U", s, "Relu"))
        for j in srcs:
            if j <= s and g.vals[j]["shape"] == v["shape"] and g.vals[j]["dt"] == "f32":
                opts.append(("Mulp", s, j))
                if j != s:
                    opts.append(("Mulp", j, s))
    return opts


def opts_D(g: GB, i: int, N: int, ctx) -> List[Tuple]:
    opts: List[Tuple] = []
    data = [k for k, v in enumerate(g.vals) if v["dt"] == "f32"]
    bools = [k for k, v in enumerate(g.vals) if v["dt"] == "bool" and v["shape"] == ()]
    if i == 0:
        return [("ConstB", 0, 1), ("ConstB", 0, 0), ("U", 0, "Relu")]
    for b in bools:
        opts.append(("Not", b))
    for d in data[-2:]:
        for tmk in ["absent", "ratio_only", "constF"] + [f"val:{b}" for b in bools]:
            opts.append(("Drop", d, tmk))
        opts.append(("U", d, "Relu"))
    return opts


FAMILIES = {
    "T": dict(opts=opts_T, ranks=(3,), opset=G.OPSET),
    "R": dict(opts=opts_R, ranks=(2,), opset=G.OPSET),
    "S": dict(opts=opts_S, ranks=(2,), opset=24),
    "D": dict(opts=opts_D, ranks=(2,), opset=G.OPSET),
}


def family_ctx(fam: str, tier: str, N: int) -> Dict[str, Any]:
    if fam == "T":
        big = dict(unary=("Relu", "Neg"), binary=("Add", "Mul", "Max"), prev_binary=("Add", "Max"),
                   sides=("sc", "vec", "full", "inp"), clip=True, cast=True, reduce=(1, 0), softmax=True)
        small = dict(unary=("Relu",), binary=("Add", "Max"), prev_binary=("Add",),
                     sides=("sc", "full", "inp"), clip=True, cast=False, reduce=(1,), softmax=False, chain=True)
        return big if N <= 3 else small
    if fam == "R":
        big = dict(reshapes=("flat", "base", "swap", "same", "zero", "m1"), unary=("Relu", "Tanh"),
                   binary=("Max", "Add"), sides=("sc", "vec", "full", "inp"), clip=True, cast=True, shape=True)
        small = dict(reshapes=("flat", "base", "swap", "same"), unary=("Relu",), binary=("Max",),
                     sides=("sc", "full"), clip=False, cast=False, shape=True, chain=True)
        return big if N <= 3 else small
    return {}


ANNOT = ("concrete", "sym1", "symall", "none")


def build_case(ch: Chooser, fam: str, rank: int, N: int, tier: str) -> Optional[Dict[str, Any]]:
    f = FAMILIES[fam]
    g = GB(rank, opset=f["opset"])
    ctx = family_ctx(fam, tier, N)
    try:
        for i in range(N):
            options = f["opts"](g, i, N, ctx)
            if not options:
                return None
            o = ch.pick(f"n{i}", options)
            apply_opt(g, o)
    except _Invalid:
        return None
    outs_pool = [v for v in g.vals if not v["input"]]
    last = outs_pool[-1]
    others = outs_pool[:-1]
    subsets = []
    for r in range(len(others) + 1):
        for comb in itertools.combinations(range(len(others)), r):
            subsets.append(comb)
    sub = ch.pick("outs", subsets)
    annot = ch.pick("annot", ANNOT if tier == "thorough" else ANNOT[:3])
    outs = [others[j] for j in sub] + [last]
    return {"g": g, "outs": outs, "annot": annot,
            "text": f"{fam}{rank}|" + ";".join(g.desc) + "|outs=" + ",".join(v["name"] for v in outs) + f"|{annot}"}


def to_model(case: Dict[str, Any]):
    g: GB = case["g"]
    annot = case["annot"]

    def in_shape(v):
        shp = list(v["shape"])
        if annot == "sym1" and shp:
            shp[0] = "B"
        elif annot == "symall":
            shp = [f"d{v['name']}_{k}" for k in range(len(shp))]
        return shp

    inputs = [G.vi(v["name"], ELEM[v["dt"]], in_shape(v)) for v in g.inputs]
    outputs = [G.vi(v["name"], ELEM[v["dt"]], None) for v in case["outs"]]
    m = G.make_model(g.nodes, inputs, outputs, initializers=g.inits, opset=g.opset)
    if annot != "none":
        m = G.annotate(m, strict=True)
    return m


def eval_case(case: Dict[str, Any], per_pass: bool) -> Dict[str, Any]:
    """Run the real optimizer on one graph and compare before/after in ORT."""
    try:
        model = to_model(case)
    except Exception as e:  # noqa: BLE001 - generator produced an ill-typed graph
        return {"status": "invalid_generated", "msg": str(e)[:200]}
    g: GB = case["g"]
    feeds = [_feeds(g.inputs, 0), _feeds(g.inputs, 1)]
    before = []
    for fd in feeds:
        s, o = G.ort_run(model, fd)
        if s != "ok":
            return {"status": "invalid_before", "msg": str(o)[:200]}
        before.append(o)
    d0 = G.model_digest(model)
    try:
        after = G.optimize(model)
    except Exception as e:  # noqa: BLE001
        return {"status": "optimizer_raised", "msg": f"{type(e).__name__}: {e}"[:300], "digest": d0}
    d1 = G.model_digest(after)
    res: Dict[str, Any] = {"status": "ok", "digest": d0, "after_digest": d1,
                           "changed": sorted(G.op_histogram(model).items()) != sorted(G.op_histogram(after).items())}
    diff = None
    if [o.name for o in after.graph.output] != [o.name for o in model.graph.output] and \
            len(after.graph.output) != len(model.graph.output):
        diff = f"graph output count {len(model.graph.output)} -> {len(after.graph.output)}"
    if diff is None:
        for fd, exp in zip(feeds, before):
            s, o = G.ort_run(after, fd)
            if s != "ok":
                diff = f"optimised model {s}: {o}"
                break
            diff = G.same_arrays(exp, o)
            if diff:
                break
    if diff is None:
        err = G.structural_ok(after)
        if err and G.structural_ok(model) is None:
            diff = "optimised model invalid: " + err
    if diff is not None or per_pass:
        steps = G.optimize_stepwise(model)
        if steps is not None:
            prev = model
            prev_out = before
            for name, m_k in steps:
                if G.model_digest(m_k) == G.model_digest(prev):
                    continue
                res["passes_changed"] = res.get("passes_changed", 0) + 1
                bad = None
                outs_k = []
                for fd, exp in zip(feeds, before):
                    s, o = G.ort_run(m_k, fd)
                    if s != "ok":
                        bad = f"{s}: {o}"
                        break
                    bad = G.same_arrays(exp, o)
                    if bad:
                        break
                if bad:
                    res["guilty_pass"] = name
                    if diff is None:
                        diff = f"after pass {name}: {bad}"
                    break
                prev = m_k
    if diff is None and per_pass and res["changed"]:
        # thorough tier: every rotation / reversal of every iteration of the optimizer's set()-built collections
        # (deviation bound 1) must produce the same optimised graph
        so = _set_order_variants(model, d1)
        if so:
            diff = so
            res["guilty_pass"] = "set-iteration-order"
    if diff is not None:
        res["diff"] = diff
    return res


def _set_order_variants(model, expected_digest: str) -> Optional[str]:
    import jax2onnx.converter.ir_optimizations as opt
    from checks import c14
    had = "set" in vars(opt)
    old = vars(opt).get("set")
    opt.set = c14._make_controlled_set()
    try:
        def body(ch: Chooser):
            c14._Ctl.chooser = ch
            try:
                return G.model_digest(G.optimize(model))
            finally:
                c14._Ctl.chooser = None
        for ex in explore(body, bound=1, max_executions=16):
            if ex.result != expected_digest:
                return f"iteration order {ex.vector} of a set()-built collection changes the optimised graph"
    except Exception as e:  # noqa: BLE001
        return None
    finally:
        if had:
            opt.set = old
        else:
            try:
                del opt.set
            except Exception:
                pass
    return None


# --------------------------------------------------------------------------
# worker job: explore the whole subtree under a prefix
# --------------------------------------------------------------------------
def job_subtree(p: Dict[str, Any]) -> Dict[str, Any]:
    fam, rank, N, tier, prefix = p["fam"], p["rank"], p["N"], p["tier"], p["prefix"]
    per_pass = p.get("per_pass", False)
    stats = ExploreStats()
    out = {"execs": 0, "evaluated": 0, "changed": 0, "invalid": 0, "raised": 0, "states": [], "viol": [],
           "samples": [], "passes_changed": 0}
    seen = set()

    holder: Dict[str, Any] = {}

    def body(ch: Chooser):
        holder["case"] = build_case(ch, fam, rank, N, tier)
        return None

    for ex in explore(body, start_prefix=prefix, stats=stats):
        out["execs"] += 1
        case = holder["case"]
        if case is None:
            out["invalid"] += 1
            continue
        r = eval_case(case, per_pass)
        st = r["status"]
        if st in ("invalid_generated", "invalid_before"):
            out["invalid"] += 1
            continue
        if st == "optimizer_raised":
            out["raised"] += 1
            if len(out["samples"]) < 2:
                out["samples"].append({"graph": case["text"], "optimizer_raised": r["msg"]})
            continue
        out["evaluated"] += 1
        out["passes_changed"] += r.get("passes_changed", 0)
        if r["digest"] not in seen:
            seen.add(r["digest"])
            out["states"].append(r["digest"][:14])
        if r["after_digest"] not in seen:
            seen.add(r["after_digest"])
            out["states"].append(r["after_digest"][:14])
        if r["changed"]:
            out["changed"] += 1
            if len(out["samples"]) < 1:
                out["samples"].append({"graph": case["text"], "vector": ex.vector, "changed": True})
        if "diff" in r:
            out["viol"].append({"text": case["text"], "vector": ex.vector, "diff": r["diff"],
                                "pass": r.get("guilty_pass")})
    out["transitions"] = stats.transitions
    return out


def job_corpus(p: Dict[str, Any]) -> Dict[str, Any]:
    """A graph the lowering really produces: export with the optimizer switched off (empty pass table), then run the
    real pipeline pass by pass on it and compare every changed stage with the unoptimised model in ORT."""
    import jax2onnx.converter.ir_optimizations as opt
    from mc import corpus
    from checks import c11
    passes = getattr(opt, "_OPTIMIZER_PASSES", None)
    if not isinstance(passes, tuple):
        return {"status": "seam_missing"}
    tp = corpus.get(p["pid"])
    try:
        fn = corpus.instantiate(tp)
        if not corpus.random_free(fn, corpus.input_meta(tp)[1], tp):
            return {"status": "skip"}
        opt._OPTIMIZER_PASSES = ()
        try:
            raw = corpus.export(tp, fn)
        finally:
            opt._OPTIMIZER_PASSES = passes
    except Exception as e:  # noqa: BLE001
        return {"status": "skip", "msg": f"{type(e).__name__}"}
    try:
        feeds = c11._feeds(tp, raw)
    except Exception:
        return {"status": "skip"}
    s0, base = G.ort_run(raw, feeds, limit=3.0)
    if s0 != "ok":
        return {"status": "raw_unrunnable"}
    steps = G.optimize_stepwise(raw)
    if steps is None:
        return {"status": "seam_missing"}
    out = {"status": "ok", "changed_passes": 0, "digests": [G.model_digest(raw)[:12]]}
    prev = G.model_digest(raw)
    for name, m_k in steps:
        d = G.model_digest(m_k)
        if d == prev:
            continue
        prev = d
        out["changed_passes"] += 1
        out["digests"].append(d[:12])
        s1, res = G.ort_run(m_k, feeds, limit=10.0)
        if s1 != "ok":
            out["diff"] = f"after pass {name}: model {s1}: {str(res)[:150]}"
            out["pass"] = name
            break
        bad = _close_arrays(base, res)
        if bad:
            out["diff"] = f"after pass {name}: {bad}"
            out["pass"] = name
            break
    return out


def _close_arrays(a, b) -> Optional[str]:
    """Corpus graphs carry arbitrary float data: a rewrite may legitimately change the summation order of a reduction
    (ReduceMean over re-mapped axes), so floats are compared to 1e-5 relative to the tensor scale; everything else
    (count, order, dtype, shape, integers, booleans) exactly."""
    if len(a) != len(b):
        return f"output count {len(a)} != {len(b)}"
    for i, (x, y) in enumerate(zip(a, b)):
        x, y = np.asarray(x), np.asarray(y)
        if x.dtype != y.dtype:
            return f"output {i} dtype {x.dtype} != {y.dtype}"
        if x.shape != y.shape:
            return f"output {i} shape {x.shape} != {y.shape}"
        if x.dtype.kind in "fc":
            fx, fy = np.isfinite(x), np.isfinite(y)
            if not np.array_equal(fx, fy):
                return f"output {i}: finiteness differs"
            if fx.any():
                scale = max(float(np.max(np.abs(x[fx]))), 1e-30)
                err = float(np.max(np.abs(x[fx].astype(np.float64) - y[fx].astype(np.float64))))
                if err > 1e-5 * scale:
                    return f"output {i}: max abs difference {err:.3e} at scale {scale:.3g}"
        elif not np.array_equal(x, y):
            return f"output {i} values differ: {x.reshape(-1)[:6]} vs {y.reshape(-1)[:6]}"
    return None


def _plan(fam: str, rank: int, N: int, tier: str, depth: int) -> List[List[int]]:
    def body(ch: Chooser):
        return build_case(ch, fam, rank, N, tier)
    return split_prefixes(body, depth)


def _space(tier: str) -> List[Tuple[str, int, int]]:
    if tier == "quick":
        return [("T", 3, 2), ("T", 3, 3), ("T", 2, 3), ("R", 2, 2), ("R", 2, 3), ("S", 2, 2), ("S", 2, 3),
                ("D", 2, 3)]
    return [("T", 3, 2), ("T", 3, 3), ("T", 2, 3), ("T", 4, 3), ("T", 3, 4), ("R", 2, 2), ("R", 2, 3), ("R", 3, 3),
            ("R", 2, 4), ("S", 2, 2), ("S", 2, 3), ("S", 2, 4), ("D", 2, 3), ("D", 2, 4)]


def _violation_key(v: Dict[str, Any]) -> str:
    return f"G|{v['text']}"


def main(tier: str) -> int:
    run = Run(PROP, tier)
    run.cov["rule"] = ("G-space: all graphs with N nodes per rewrite family (T transpose / R reshape / S mul+sigmoid at "
                       "opset 24 / D dropout+not) over the family alphabet, each node consuming any earlier value, x all "
                       "output subsets containing the last value x 4 annotation modes; state = digest of the serialised "
                       "graph (before and after), transition = one choice edge of the generator tree; every generated valid "
                       "graph is executed through the real optimize_graph and compared before/after in ORT on two "
                       "all-distinct feeds. non-trivial = graphs whose operator histogram was changed by the optimizer.")
    run.assumptions += ["ONNX Runtime CPU (graph optimisations disabled) as executor of both models",
                        "graphs are annotated by ONNX strict shape inference the way the converter stamps every value"]
    jobs = []
    for fam, rank, N in _space(tier):
        depth = 2 if N >= 3 else 1
        for pref in _plan(fam, rank, N, tier, depth):
            jobs.append({"fam": fam, "rank": rank, "N": N, "tier": tier, "prefix": pref,
                         "per_pass": tier == "thorough"})
    run.cov["subtree_jobs"] = len(jobs)
    fam_stats: Dict[str, Dict[str, int]] = {}
    with Pool(init=("checks.c17", "_warm"), job_timeout=1200) as pool:
        for _i, p, r in pool.imap("checks.c02", "job_subtree", jobs):
            if is_worker_failure(r):
                run.harness_error(f"subtree {p['fam']}{p['rank']} N={p['N']} prefix={p['prefix']}: {r}")
                run.cap("a subtree job failed in the harness")
                continue
            fs = fam_stats.setdefault(f"{p['fam']}{p['rank']}/N{p['N']}", {"graphs": 0, "changed": 0, "invalid": 0, "raised": 0})
            fs["graphs"] += r["evaluated"]
            fs["changed"] += r["changed"]
            fs["invalid"] += r["invalid"]
            fs["raised"] += r["raised"]
            run.add("evaluations", r["execs"])
            run.add("traces_validated_against_impl", r["evaluated"])
            run.add("transitions", r["transitions"])
            run.add("pass_applications_changing_graph", r["passes_changed"])
            for d in r["states"]:
                run.state(d)
            run.add("distinct_nontrivial", r["changed"])
            for s in r["samples"]:
                run.sample(s)
            for v in r["viol"]:
                run.violation(_violation_key(v), f"pass={v.get('pass')} {v['diff']}",
                              {"kind": "gspace", "fam": p["fam"], "rank": p["rank"], "N": p["N"], "tier": tier,
                               "vector": v["vector"], "graph": v["text"]})
    run.cov["families"] = fam_stats
    # graphs the lowering really produces: corpus exports taken before optimisation, pass by pass
    import hashlib
    with Pool(init=("mc.runners", "warm_export"), job_timeout=300) as pool:
        pids = pool.map("mc.corpus", "pids_job", [tier])[0]
        if tier == "quick":
            sd = seed()
            pids = [q for q in pids if (int(hashlib.sha256(q.encode()).hexdigest()[:6], 16) + sd) % 4 == 0]
            run.cap("quick: annotation modes concrete / one symbol / all-symbolic (absent annotations only in thorough)")
        run.cap("quick: a seed-rotated quarter of the corpus is pushed through the pipeline pass by pass (all in thorough)")
        cstats = {"corpus_programs": 0, "corpus_pass_applications_changing_graph": 0}
        for _i, p, r in pool.imap("checks.c02", "job_corpus", [{"pid": q} for q in pids]):
            if is_worker_failure(r):
                run.harness_error(f"corpus {p['pid']}: {r.get('_worker')} {r.get('msg', '')[:120]}")
                continue
            if r.get("status") == "seam_missing":
                run.cap("optimizer pass table seam missing: corpus pass-by-pass part skipped")
                break
            if r.get("status") != "ok":
                continue
            cstats["corpus_programs"] += 1
            cstats["corpus_pass_applications_changing_graph"] += r["changed_passes"]
            run.add("evaluations")
            run.add("traces_validated_against_impl")
            run.add("transitions", r["changed_passes"])
            run.add("distinct_nontrivial", 1 if r["changed_passes"] else 0)
            for dg in r["digests"]:
                run.state(dg)
            if r.get("diff"):
                run.violation(f"corpus|{p['pid']}|{r.get('pass')}", r["diff"], {"kind": "corpus", "pid": p["pid"]})
        run.cov.update(cstats)
    run._nontrivial = set()  # counted numerically above
    return run.finish()


def replay(rep: Dict[str, Any]) -> Dict[str, Any]:
    if rep.get("kind") == "corpus":
        from mc import runners
        runners.warm_export()
        r = job_corpus({"pid": rep["pid"]})
        return {"violation": bool(r.get("diff")), "observed": r}
    ch = Chooser(rep["vector"])
    case = build_case(ch, rep["fam"], rep["rank"], rep["N"], rep["tier"])
    r = eval_case(case, True)
    return {"violation": "diff" in r, "graph": case["text"], "observed": r}
