"""C05 - the model interface mirrors the callable's signature.

Enumerated (P-gen(sig)): arity 1..2 (3 thorough) x input dtypes {float, int32, bool} per argument x 16 result
pytrees (tuple / nested tuple / dict, <= 3 leaves) over atoms {pass-through input, constant, computed value, the
same value twice, casts to f16 / f64 / int64 / int8, bool result, unused inputs} x naming {none, inputs, outputs,
both, colliding input/output names, name colliding with an input_param} x precision flag x input_params {none,
consumed, unused} x {ShapeDtypeStruct, plain shape tuple, symbolic batch}.
Oracle: ModelProto.graph.input/output vs the call arguments and jax.eval_shape under the same x64 mode: count,
order, names, dtype class / width rule of the statement, rank, static dims, symbol names on inputs.
"""
from __future__ import annotations

import itertools
from typing import Any, Dict, List, Optional, Tuple

import numpy as np

from mc.pool import Pool, is_worker_failure
from mc.report import Run

PROP = "C05"

OUT_CONFIGS = ["pass0", "compute0", "const", "tuple_compute_pass", "dup_value", "nested3", "dict2", "cast_f16", "cast_f64",
               "cast_i64", "cast_i8", "bool_result", "only_last", "pass_all", "const_and_pass", "reduce_scalar"]
NAMING = ["none", "inputs", "outputs", "both", "collide_in_out", "collide_in_in", "collide_out_out", "collide_with_param"]
DT = {"f": "float", "i": "int32", "b": "bool"}


def _build(case: Dict[str, Any]):
    import jax
    import jax.numpy as jnp
    ar, dts, cfg = case["arity"], case["dtypes"], case["out"]

    def num(v):  # make a float32-ish computed value from any input
        return v.astype(jnp.float32) if v.dtype != jnp.float32 and v.dtype != jnp.float64 else v

    def body(*xs, flag=None):
        a = xs[0]
        last = xs[-1]
        c = jnp.asarray(np.arange(3, dtype=np.float32) + 0.5)
        bonus = 0.0 if flag is None else jnp.where(flag, 1.0, 2.0)
        comp = num(a) * 2.0 + 1.0 + bonus
        if cfg == "pass0":
            return a
        if cfg == "compute0":
            return comp
        if cfg == "const":
            return c
        if cfg == "tuple_compute_pass":
            return comp, last
        if cfg == "dup_value":
            return comp, comp
        if cfg == "nested3":
            return comp, (last, c)
        if cfg == "dict2":
            return {"b": comp, "a": num(last) - 1.0}
        if cfg == "cast_f16":
            return comp.astype(jnp.float16), comp
        if cfg == "cast_f64":
            return comp.astype(jnp.float64)
        if cfg == "cast_i64":
            return comp.astype(jnp.int64), a
        if cfg == "cast_i8":
            return comp.astype(jnp.int8)
        if cfg == "bool_result":
            return comp > 2.0, comp
        if cfg == "only_last":
            return num(last) * 3.0
        if cfg == "pass_all":
            return tuple(xs)
        if cfg == "const_and_pass":
            return c, a, c * 2.0
        if cfg == "reduce_scalar":
            return jnp.sum(comp), jnp.max(num(last), axis=0)
        raise ValueError(cfg)

    params = None
    if case["params"] == "consumed":
        fn = lambda *xs, flag=True: body(*xs, flag=flag)  # noqa: E731
        params = {"flag": True}
    elif case["params"] == "unused":
        fn = lambda *xs, flag=True: body(*xs)  # noqa: E731
        params = {"flag": True}
    else:
        fn = lambda *xs: body(*xs)  # noqa: E731
    dbl = case["double"]
    npdt = {"f": (np.float64 if dbl else np.float32), "i": np.int32, "b": np.bool_}
    shape = ("B", 3) if case["spec"] == "symbolic" else (2, 3)
    if case["spec"] == "tuple":
        specs = [shape for _ in range(ar)]
        sds = [jax.ShapeDtypeStruct((2, 3), np.float64 if dbl else np.float32) for _ in range(ar)]
    else:
        specs = [jax.ShapeDtypeStruct(shape, npdt[d]) if case["spec"] == "sds" else None for d in dts]
        if case["spec"] == "symbolic":
            specs = [jax.ShapeDtypeStruct(tuple(shape), npdt[d]) if False else (shape if d == "f" and not dbl else None) for d in dts]
        sds = [jax.ShapeDtypeStruct((2, 3), npdt[d]) for d in dts]
    return fn, specs, sds, params


def job(case: Dict[str, Any]) -> Dict[str, Any]:
    import hashlib
    import jax
    import jax.numpy as jnp
    from onnx import TensorProto, helper
    from jax2onnx import to_onnx
    ar = case["arity"]
    fn, specs, sds, params = _build(case)
    if any(s is None for s in specs):
        return {"status": "n/a"}
    dbl = case["double"]
    # expected interface from JAX itself, under the same x64 mode
    prev = bool(jax.config.jax_enable_x64)
    jax.config.update("jax_enable_x64", dbl)
    try:
        kw = {"flag": True} if params else {}
        out_tree = jax.eval_shape(lambda *a: fn(*a, **kw), *sds)
        leaves = jax.tree_util.tree_leaves(out_tree)
    finally:
        jax.config.update("jax_enable_x64", prev)
    n_out = len(leaves)
    in_names = out_names = None
    nm = case["naming"]
    expect_raise = False
    if nm in ("inputs", "both"):
        in_names = [f"arg_{k}" for k in range(ar)]
    if nm in ("outputs", "both"):
        out_names = [f"res_{k}" for k in range(n_out)]
    if nm == "collide_in_out":
        if case["out"] in ("pass0", "pass_all", "cast_i64"):
            return {"status": "n/a"}  # the output IS that input: one value, one name
        in_names = [f"v_{k}" for k in range(ar)]
        out_names = ["v_0"] + [f"r_{k}" for k in range(1, n_out)]
        expect_raise = True
    if nm == "collide_in_in":
        if ar < 2:
            return {"status": "n/a"}
        in_names = ["same"] * ar
        expect_raise = True
    if nm == "collide_out_out":
        if n_out < 2:
            return {"status": "n/a"}
        out_names = ["same"] * n_out
        expect_raise = True
    if nm == "collide_with_param":
        if not params:
            return {"status": "n/a"}
        in_names = ["flag"] + [f"arg_{k}" for k in range(1, ar)]
        expect_raise = True
    try:
        m = to_onnx(fn, specs, input_params=params, enable_double_precision=dbl, input_names=in_names, output_names=out_names)
    except Exception as e:  # noqa: BLE001
        if expect_raise:
            return {"status": "rejected-as-required", "type": type(e).__name__}
        return {"status": "raised", "type": type(e).__name__, "msg": str(e)[:150]}
    problems: List[str] = []
    if expect_raise:
        problems.append(f"names: colliding names ({nm}) were accepted")
    inits = {i.name for i in m.graph.initializer}
    gin = [i for i in m.graph.input if i.name not in inits]
    pos = [i for i in gin if not (params and i.name in params)]
    if len(pos) != ar:
        problems.append(f"inputs: model has {len(pos)} positional inputs {[i.name for i in pos]} for {ar} arguments")
    want_in = in_names if (in_names and not expect_raise) else [f"in_{k}" for k in range(ar)]
    if not expect_raise and [i.name for i in pos] != want_in:
        problems.append(f"inputs: names/order {[i.name for i in pos]} != {want_in}")
    float_elem = TensorProto.DOUBLE if dbl else TensorProto.FLOAT
    for k, i in enumerate(pos[:ar]):
        tt = i.type.tensor_type
        want_np = np.dtype(sds[k].dtype)
        got_np = np.dtype(helper.tensor_dtype_to_np_dtype(tt.elem_type))
        if want_np.kind != got_np.kind and not (want_np.kind in "iu" and got_np.kind in "iu"):
            problems.append(f"inputs: input {k} declared {got_np} for a {want_np} argument")
        elif want_np.kind == "f" and got_np != want_np:
            problems.append(f"inputs: input {k} declared {got_np} for a {want_np} argument (precision flag {dbl})")
        dims = [(d.dim_param or d.dim_value) for d in tt.shape.dim]
        spec_shape = ("B", 3) if case["spec"] == "symbolic" else (2, 3)
        if len(dims) != 2 or list(dims) != list(spec_shape):
            problems.append(f"inputs: input {k} declared shape {dims} for spec {spec_shape}")
    gout = list(m.graph.output)
    if len(gout) != n_out:
        problems.append(f"outputs: model has {len(gout)} outputs for {n_out} result leaves")
    if out_names and not expect_raise and [o.name for o in gout] != out_names:
        problems.append(f"outputs: names {[o.name for o in gout]} != {out_names}")
    if {o.name for o in gout} & {i.name for i in gin} and case["out"] not in ("pass0", "pass_all", "tuple_compute_pass", "nested3",
                                                                                 "cast_i64", "const_and_pass", "dict2", "only_last", "reduce_scalar"):
        problems.append("outputs: an output shares its name with an input although no input is passed through")
    for k, (o, leaf) in enumerate(zip(gout, leaves)):
        tt = o.type.tensor_type
        got_np = np.dtype(helper.tensor_dtype_to_np_dtype(tt.elem_type))
        want_np = np.dtype(leaf.dtype)
        if want_np.kind == "b":
            if got_np.kind != "b":
                problems.append(f"outputs: output {k} declared {got_np} for a bool result")
        elif want_np.kind in "iu":
            if got_np.kind not in "iu" or not (got_np == want_np or got_np == np.int64):
                problems.append(f"outputs: output {k} declared {got_np} for an {want_np} result")
        elif want_np.kind == "f":
            if got_np.kind != "f":
                problems.append(f"outputs: output {k} declared {got_np} for a {want_np} result")
            elif want_np == np.float16:
                if got_np != np.float16:
                    problems.append(f"outputs: output {k} declared {got_np} although the callable requests float16")
            elif got_np != want_np and got_np != (np.float64 if dbl else np.float32):
                # allowed: the width of the precision flag, or the width JAX computes under the same x64 mode (= a width the
                # callable requests itself)
                problems.append(f"outputs: output {k} declared {got_np} with enable_double_precision={dbl} (JAX: {want_np})")
        dims = [(d.dim_param or d.dim_value) if (d.dim_param or d.HasField("dim_value")) else None for d in tt.shape.dim]
        if not tt.HasField("shape") or len(dims) != len(leaf.shape):
            problems.append(f"outputs: output {k} declared rank {len(dims) if tt.HasField('shape') else None} for JAX shape {leaf.shape}")
        else:
            for dd, jd in zip(dims, leaf.shape):
                if isinstance(dd, int) and case["spec"] != "symbolic" and dd != jd:
                    problems.append(f"outputs: output {k} declared shape {dims} contradicts JAX shape {leaf.shape}")
                    break
                if isinstance(dd, int) and case["spec"] == "symbolic" and jd == 3 and dd != 3:
                    problems.append(f"outputs: output {k} declared shape {dims} contradicts static JAX dim in {leaf.shape}")
                    break
    return {"status": "ok", "problems": problems, "digest": hashlib.sha256(m.SerializeToString()).hexdigest()[:14],
            "io": [[i.name for i in gin], [o.name for o in gout]]}


def job_special(case: Dict[str, Any]) -> Dict[str, Any]:
    """Signatures outside the small grammar: many positional arguments (unused ones at any index), layout flags."""
    import hashlib
    import jax
    import jax.numpy as jnp
    from onnx import helper
    from jax2onnx import to_onnx
    kind = case["kind"]
    problems: List[str] = []
    if kind == "many_args":
        n, unused = case["n"], set(case["unused"])

        def fn(*xs):
            acc = 0.0
            for k, v in enumerate(xs):
                if k not in unused:
                    acc = acc + v * float(k + 1)
            return acc
        specs = [(2, 3)] * n
        kw: Dict[str, Any] = {}
        sds = [jax.ShapeDtypeStruct((2, 3), np.float32)] * n
        flagged_in, flagged_out = set(), set()
    else:  # layout
        S = (1, 4, 5, 3)
        variant = case["variant"]
        if variant == "mixed":
            fn = lambda x, y: (x * 2.0, jnp.sum(y).astype(jnp.int32)[None], x[..., :1] + 1.0)  # noqa: E731
            specs = [S, (2, 3)]
        elif variant == "unused_4d":
            fn = lambda x, y: (y * 2.0,)  # noqa: E731
            specs = [S, S]
        else:
            fn = lambda x, y: (jnp.sum(y, axis=(1, 2)), x + y, y)  # noqa: E731
            specs = [S, S]
        sds = [jax.ShapeDtypeStruct(s, np.float32) for s in specs]
        flagged_in, flagged_out = set(case["in"]), set(case["out"])
        kw = {"inputs_as_nchw": sorted(flagged_in) or None, "outputs_as_nchw": sorted(flagged_out) or None}
    leaves = jax.tree_util.tree_leaves(jax.eval_shape(fn, *sds))
    try:
        m = to_onnx(fn, specs, **kw)
    except Exception as e:  # noqa: BLE001
        return {"status": "raised", "type": type(e).__name__, "msg": str(e)[:150]}
    inits = {i.name for i in m.graph.initializer}
    gin = [i for i in m.graph.input if i.name not in inits]
    if len(gin) != len(specs):
        problems.append(f"inputs: model has {len(gin)} inputs {[i.name for i in gin][:14]} for {len(specs)} positional arguments")
    else:
        for k, (i, sd) in enumerate(zip(gin, sds)):
            dims = [d.dim_value for d in i.type.tensor_type.shape.dim]
            want = list(sd.shape)
            if k in flagged_in:
                want = [want[0], want[3], want[1], want[2]]
            if dims != want:
                problems.append(f"inputs: input {k} ({i.name}) declared {dims}, expected {want} (argument order / layout)")
                break
    gout = list(m.graph.output)
    if len(gout) != len(leaves):
        problems.append(f"outputs: model has {len(gout)} outputs for {len(leaves)} leaves")
    else:
        for k, (o, leaf) in enumerate(zip(gout, leaves)):
            dims = [d.dim_value for d in o.type.tensor_type.shape.dim]
            want = list(leaf.shape)
            if k in flagged_out and len(want) == 4:
                want = [want[0], want[3], want[1], want[2]]
            got_np = np.dtype(helper.tensor_dtype_to_np_dtype(o.type.tensor_type.elem_type))
            if dims != want or got_np.kind != np.dtype(leaf.dtype).kind:
                problems.append(f"outputs: output {k} declared {got_np}{dims}, JAX leaf {np.dtype(leaf.dtype)}{want} (order / layout)")
                break
    return {"status": "ok", "problems": problems, "digest": hashlib.sha256(m.SerializeToString()).hexdigest()[:14],
            "io": [[i.name for i in gin], [o.name for o in gout]]}


def special_cases(tier: str) -> List[Dict[str, Any]]:
    out: List[Dict[str, Any]] = []
    for n, unused in ((12, [10]), (12, [3]), (12, [0, 11]), (11, [10]), (4, [1, 2]), (12, [])):
        out.append({"kind": "many_args", "n": n, "unused": unused})
    for variant, n_in4, out4 in (("mixed", [0], [0, 2]), ("unused_4d", [0, 1], [0]), ("reduce_first", [0, 1], [1, 2])):
        for r_in in range(len(n_in4) + 1):
            for fi in itertools.combinations(n_in4, r_in):
                for r_out in range(len(out4) + 1):
                    for fo in itertools.combinations(out4, r_out):
                        out.append({"kind": "layout", "variant": variant, "in": list(fi), "out": list(fo)})
    return out


def cases(tier: str) -> List[Dict[str, Any]]:
    out = []
    arities = (1, 2) if tier == "quick" else (1, 2, 3)
    for ar in arities:
        for dts in itertools.product("fib", repeat=ar):
            for cfg in OUT_CONFIGS:
                for dbl in (False, True):
                    variants = [("none", "none", "sds")] + [(n, "none", "sds") for n in NAMING[1:7]] + \
                               [("none", "consumed", "sds"), ("none", "unused", "sds"), ("collide_with_param", "consumed", "sds"),
                                ("both", "consumed", "sds"), ("none", "none", "symbolic"), ("both", "none", "symbolic")]
                    if all(d == "f" for d in dts):
                        variants.append(("none", "none", "tuple"))
                    if tier == "quick" and ar == 2 and dts not in (("f", "f"), ("f", "i"), ("b", "f"), ("i", "b")):
                        variants = variants[:1] + variants[7:9]
                    for nm, pr, sp in variants:
                        out.append({"arity": ar, "dtypes": "".join(dts), "out": cfg, "naming": nm, "params": pr, "double": dbl, "spec": sp})
    return out


def ident(c: Dict[str, Any]) -> str:
    return f"ar{c['arity']}:{c['dtypes']}|{c['out']}|names={c['naming']}|params={c['params']}|{'f64' if c['double'] else 'f32'}|{c['spec']}"


def main(tier: str) -> int:
    run = Run(PROP, tier)
    from checks.c15 import _warm  # noqa: F401
    cs = cases(tier)
    run.cov["rule"] = ("signature grammar: arity x argument dtypes x result pytree x naming x input_params x precision flag x spec "
                       "form, every combination exported through the real to_onnx and compared with jax.eval_shape; state = model "
                       "digest; transition = one export; non-trivial = export with >= 2 outputs, custom names, input_params or a "
                       "symbolic dimension.")
    run.assumptions += ["jax.eval_shape under the same x64 mode defines the expected leaves"]
    if tier == "quick":
        run.cap("quick: arity <= 2; naming/params variants only for 4 of the 9 dtype pairs at arity 2")
    run.cov["cases"] = len(cs)
    outcomes: Dict[str, int] = {}
    with Pool(init=("checks.c15", "_warm"), job_timeout=300) as pool:
        for _i, p, r in pool.imap("checks.c05", "job", cs):
            if is_worker_failure(r):
                run.harness_error(f"{ident(p)}: {r.get('_worker')} {r.get('msg', '')[:150]}")
                continue
            if r["status"] == "n/a":
                continue
            run.add("evaluations")
            run.add("transitions")
            outcomes[r["status"]] = outcomes.get(r["status"], 0) + 1
            if r["status"] == "raised":
                # a refusal of a valid signature is loud; it is recorded, not judged by this property
                outcomes["raised:" + r["type"]] = outcomes.get("raised:" + r["type"], 0) + 1
                continue
            if r["status"] == "rejected-as-required":
                run.nontrivial(ident(p))
                continue
            run.add("traces_validated_against_impl")
            run.state(r["digest"])
            if len(r["io"][1]) >= 2 or p["naming"] != "none" or p["params"] != "none" or p["spec"] == "symbolic":
                run.nontrivial(ident(p))
            by: Dict[str, str] = {}
            for pr in r["problems"]:
                by.setdefault(pr.split(":")[0], pr)
            for cls, msg in by.items():
                run.violation(f"{ident(p)}|{cls}", msg, {"case": p})
            if len(run.cov["samples"]) < 4 and len(r["io"][1]) >= 2:
                run.sample({"case": ident(p), "model_io": r["io"]})
        for _i, p, r in pool.imap("checks.c05", "job_special", special_cases(tier)):
            idn = "special|" + "|".join(f"{k}={p[k]}" for k in sorted(p))
            if is_worker_failure(r):
                run.harness_error(f"{idn}: {r.get('_worker')} {r.get('msg', '')[:150]}")
                continue
            run.add("evaluations")
            run.add("transitions")
            outcomes["special:" + r["status"]] = outcomes.get("special:" + r["status"], 0) + 1
            if r["status"] != "ok":
                continue
            run.add("traces_validated_against_impl")
            run.state(r["digest"])
            run.nontrivial(idn)
            by2: Dict[str, str] = {}
            for pr in r["problems"]:
                by2.setdefault(pr.split(":")[0], pr)
            for cls, msg in by2.items():
                run.violation(f"{idn}|{cls}", msg, {"case": p, "special": True})
    run.cov["outcomes"] = outcomes
    return run.finish()


def replay(rep: Dict[str, Any]) -> Dict[str, Any]:
    from checks.c15 import _warm
    _warm()
    r = job_special(rep["case"]) if rep.get("special") else job(rep["case"])
    return {"violation": bool(r.get("problems")), "observed": r}
