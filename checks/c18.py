"""C18 - the bundled validation helper (allclose) is a sound oracle.

Enumerated: for a set of exported base models (float, int, bool, multi-output, complex pair, NCHW-flagged,
input_params) EVERY single-point mutant of the stored model: each output element x delta in {0.1*tol, 10*tol,
1e3*tol, NaN, +inf, -inf}; shape mutants (transpose, same-size reshape, extra / removed unit axis); output-list
mutants (drop, duplicate, append, swap); dtype-class mutants (int->float with a fractional part, float->int,
bool->int, int64 off by 2^32, swapped complex pair) x tolerances {(1e-3,1e-5), (0,0), (1e-6,1e-8)} x 2 lattice
inputs x x64 start state.  Oracle: an independent comparator implementing the statement (count, shape,
|a-b| <= atol + rtol*|b|, integers exact) applied to the mutant's real ORT outputs; the real allclose must
return False for every mutant beyond tolerance and True within; the x64 flag must be restored.
"""
from __future__ import annotations

import itertools
import os
import shutil
from typing import Any, Callable, Dict, List, Optional, Tuple

import numpy as np

from mc.pool import Pool, is_worker_failure
from mc.report import Run
from checks.c01 import scratch_dir

PROP = "C18"
TOLS = [(1e-3, 1e-5), (0.0, 0.0), (1e-6, 1e-8)]
BASES = ["float", "int", "bool", "multi", "complex", "nchw", "params", "int64"]


def _base(name: str):
    """-> (fn, to_onnx specs, kwargs, allclose kwargs, input builder(which) -> list of arrays, input_params)"""
    import jax
    import jax.numpy as jnp
    from jax import lax
    f32 = np.float32

    def fl(shape, which):
        n = int(np.prod(shape))
        base = (np.arange(n, dtype=np.float64) * (0.75 if which == 0 else -1.25) + (0.5 if which == 0 else 2.0))
        return base.reshape(shape).astype(f32)

    if name == "float":
        return (lambda x: x * 2.0 + 1.0), [(2, 3)], {}, {}, (lambda w: [fl((2, 3), w)]), None
    if name == "int":
        return (lambda x: x * 3 + 1), [jax.ShapeDtypeStruct((2, 3), jnp.int32)], {}, {}, \
            (lambda w: [(np.arange(6, dtype=np.int32).reshape(2, 3) * (1 if w == 0 else -2) + w)]), None
    if name == "int64":
        return (lambda x: x * 3 + 1), [jax.ShapeDtypeStruct((4,), jnp.int32)], {}, {}, \
            (lambda w: [(np.arange(4, dtype=np.int32) * (5 if w == 0 else -7) + w)]), None
    if name == "bool":
        return (lambda x: x > 0.5), [(2, 3)], {}, {}, (lambda w: [fl((2, 3), w) - 1.0]), None
    if name == "multi":
        return (lambda x, y: (x + y, (x * 2.0).astype(jnp.int32), x[0])), [(2, 3), (2, 3)], {}, {}, \
            (lambda w: [fl((2, 3), w), fl((2, 3), 1 - w)]), None
    if name == "complex":
        return (lambda x: lax.complex(x, x * 2.0)), [(3,)], {}, {}, (lambda w: [fl((3,), w)]), None
    if name == "nchw":
        return (lambda x: x * 2.0 + 1.0), [(1, 2, 2, 3)], {"inputs_as_nchw": [0], "outputs_as_nchw": [0]}, \
            {"inputs_as_nchw": [0], "outputs_as_nchw": [0]}, (lambda w: [fl((1, 2, 2, 3), w)]), None
    if name == "params":
        return (lambda x, scale=2.0: x * scale + 1.0), [(2, 3)], {"input_params": {"scale": np.float32(2.0)}}, {}, \
            (lambda w: [fl((2, 3), w)]), {"scale": np.float32(2.0)}
    raise ValueError(name)


# ---- mutating a stored model -------------------------------------------------------------------------
def _out_info(model):
    from onnx import helper
    info = []
    for o in model.graph.output:
        tt = o.type.tensor_type
        info.append((o.name, tt.elem_type, [d.dim_value for d in tt.shape.dim]))
    return info


def mutate(model, spec: Tuple) -> Any:
    """Return a mutated copy of ``model`` (None if the mutant does not apply)."""
    import onnx
    from onnx import helper, numpy_helper, TensorProto
    m = onnx.ModelProto()
    m.CopyFrom(model)
    g = m.graph
    kind = spec[0]
    outs = _out_info(m)

    def retype(idx, elem=None, shape=None):
        o = g.output[idx]
        if elem is not None:
            o.type.tensor_type.elem_type = elem
        if shape is not None:
            o.type.tensor_type.ClearField("shape")
            for d in shape:
                o.type.tensor_type.shape.dim.add().dim_value = int(d)

    def rename_out(idx, new):
        g.output[idx].name = new

    if kind == "point":  # ("point", out_idx, flat_pos, delta_value)
        _, oi, pos, delta = spec
        name, elem, shape = outs[oi]
        np_dt = helper.tensor_dtype_to_np_dtype(elem)
        if np.dtype(np_dt).kind not in "fiu":
            return None
        d = np.zeros(int(np.prod(shape)) if shape else 1, dtype=np.float64)
        d[pos] = delta
        if np.dtype(np_dt).kind in "iu":
            if not np.isfinite(delta) or delta != int(delta):
                return None
            d = d.astype(np_dt)
        else:
            d = d.astype(np_dt)
        g.initializer.append(numpy_helper.from_array(d.reshape(shape), "verif_delta"))
        g.node.append(helper.make_node("Add", [name, "verif_delta"], ["verif_mut_out"]))
        rename_out(oi, "verif_mut_out")
        return m
    if kind == "shape":  # ("shape", out_idx, how)
        _, oi, how = spec
        name, elem, shape = outs[oi]
        if how == "transpose":
            if len(shape) < 2 or shape[-1] == shape[-2]:
                return None
            perm = list(range(len(shape)))
            perm[-1], perm[-2] = perm[-2], perm[-1]
            g.node.append(helper.make_node("Transpose", [name], ["verif_mut_out"], perm=perm))
            new = [shape[p] for p in perm]
        elif how == "reshape":
            n = int(np.prod(shape)) if shape else 1
            if len(shape) < 2:
                return None
            new = [n]
            g.initializer.append(numpy_helper.from_array(np.array(new, np.int64), "verif_shape"))
            g.node.append(helper.make_node("Reshape", [name, "verif_shape"], ["verif_mut_out"]))
        elif how == "unsqueeze":
            g.initializer.append(numpy_helper.from_array(np.array([0], np.int64), "verif_axes"))
            g.node.append(helper.make_node("Unsqueeze", [name, "verif_axes"], ["verif_mut_out"]))
            new = [1] + list(shape)
        elif how == "squeeze":
            if not shape or shape[0] != 1:
                return None
            g.initializer.append(numpy_helper.from_array(np.array([0], np.int64), "verif_axes"))
            g.node.append(helper.make_node("Squeeze", [name, "verif_axes"], ["verif_mut_out"]))
            new = list(shape[1:])
        elif how == "broadcast":
            new = [2] + list(shape)
            g.initializer.append(numpy_helper.from_array(np.array(new, np.int64), "verif_shape"))
            g.node.append(helper.make_node("Expand", [name, "verif_shape"], ["verif_mut_out"]))
        else:
            return None
        rename_out(oi, "verif_mut_out")
        retype(oi, shape=new)
        return m
    if kind == "list":  # ("list", how)
        how = spec[1]
        if how == "drop":
            if len(g.output) < 1:
                return None
            del g.output[len(g.output) - 1]
            if len(g.output) == 0:
                return None
        elif how == "duplicate":
            name, elem, shape = outs[0]
            g.node.append(helper.make_node("Identity", [name], ["verif_dup"]))
            o = g.output.add()
            o.CopyFrom(g.output[0])
            o.name = "verif_dup"
        elif how == "append_const":
            g.initializer.append(numpy_helper.from_array(np.array([1.0], np.float32), "verif_extra_c"))
            g.node.append(helper.make_node("Identity", ["verif_extra_c"], ["verif_extra"]))
            g.output.append(helper.make_tensor_value_info("verif_extra", TensorProto.FLOAT, [1]))
        elif how == "swap":
            if len(g.output) < 2:
                return None
            a = onnx.ValueInfoProto()
            a.CopyFrom(g.output[0])
            g.output[0].CopyFrom(g.output[1])
            g.output[1].CopyFrom(a)
        else:
            return None
        return m
    if kind == "dtype":  # ("dtype", out_idx, how)
        _, oi, how = spec
        name, elem, shape = outs[oi]
        np_dt = np.dtype(helper.tensor_dtype_to_np_dtype(elem))
        if how == "int_to_float_frac":
            if np_dt.kind not in "iu":
                return None
            g.node.append(helper.make_node("Cast", [name], ["verif_c"], to=TensorProto.FLOAT))
            g.initializer.append(numpy_helper.from_array(np.array(0.3, np.float32), "verif_frac"))
            g.node.append(helper.make_node("Add", ["verif_c", "verif_frac"], ["verif_mut_out"]))
            retype(oi, elem=TensorProto.FLOAT)
        elif how == "float_to_int":
            if np_dt.kind != "f":
                return None
            g.node.append(helper.make_node("Cast", [name], ["verif_mut_out"], to=TensorProto.INT32))
            retype(oi, elem=TensorProto.INT32)
        elif how == "bool_to_int_plus":
            if np_dt.kind != "b":
                return None
            g.node.append(helper.make_node("Cast", [name], ["verif_c"], to=TensorProto.INT32))
            g.initializer.append(numpy_helper.from_array(np.array(2, np.int32), "verif_two"))
            g.node.append(helper.make_node("Mul", ["verif_c", "verif_two"], ["verif_mut_out"]))
            retype(oi, elem=TensorProto.INT32)
        elif how == "int64_wrap":
            if np_dt.kind not in "iu":
                return None
            g.node.append(helper.make_node("Cast", [name], ["verif_c"], to=TensorProto.INT64))
            g.initializer.append(numpy_helper.from_array(np.array(2 ** 32, np.int64), "verif_big"))
            g.node.append(helper.make_node("Add", ["verif_c", "verif_big"], ["verif_mut_out"]))
            retype(oi, elem=TensorProto.INT64)
        elif how == "complex_swap":
            if not (shape and shape[-1] == 2 and np_dt.kind == "f"):
                return None
            g.initializer.append(numpy_helper.from_array(np.array([1, 0], np.int64), "verif_idx"))
            g.node.append(helper.make_node("Gather", [name, "verif_idx"], ["verif_mut_out"], axis=len(shape) - 1))
        else:
            return None
        rename_out(oi, "verif_mut_out")
        return m
    if kind == "identity":
        return m
    return None


def _expected_verdict(fn, model, xs, params, ac_kwargs, rtol, atol) -> Tuple[Optional[bool], str]:
    """Independent comparator implementing the statement on the mutant's real ORT outputs."""
    import jax
    import jax.numpy as jnp
    import onnxruntime as ort
    from mc import gspace as G
    try:
        sess = ort.InferenceSession(model.SerializeToString(), G._sess_opts(), providers=["CPUExecutionProvider"])
    except Exception as e:  # noqa: BLE001
        return None, f"mutant not loadable: {str(e)[:80]}"
    feeds = {}
    it = iter(xs)
    for k, i in enumerate(sess.get_inputs()):
        if params and i.name in params:
            feeds[i.name] = np.asarray(params[i.name])
            continue
        a = np.asarray(next(it))
        if ac_kwargs.get("inputs_as_nchw") and a.ndim == 4:
            a = np.transpose(a, (0, 3, 1, 2))
        feeds[i.name] = a
    try:
        got = sess.run(None, feeds)
    except Exception as e:  # noqa: BLE001
        return None, f"mutant not runnable: {str(e)[:80]}"
    exp = jax.tree_util.tree_leaves(jax.device_get(fn(*[jnp.asarray(x) for x in xs], **(params or {}))))
    exp = [np.asarray(e) for e in exp]
    if len(exp) != len(got):
        return False, "count"
    for k, (e, g) in enumerate(zip(exp, got)):
        g = np.asarray(g)
        if ac_kwargs.get("outputs_as_nchw") and k in ac_kwargs["outputs_as_nchw"] and g.ndim == 4:
            g = np.transpose(g, (0, 2, 3, 1))
        if np.iscomplexobj(e) and not np.iscomplexobj(g):
            if g.ndim == e.ndim + 1 and g.shape[-1] == 2:
                g = g[..., 0] + 1j * g[..., 1]
        if e.shape != g.shape:
            return False, "shape"
        if e.dtype.kind in "fc" or g.dtype.kind in "fc":
            e64, g64 = e.astype(np.complex128), g.astype(np.complex128)
            both_nan = np.isnan(e64) & np.isnan(g64)
            with np.errstate(all="ignore"):
                ok = (np.abs(e64 - g64) <= atol + rtol * np.abs(e64)) | both_nan | ((e64 == g64))
            if not np.all(ok):
                return False, "value"
        else:
            if not np.array_equal(e.astype(object), g.astype(object)):
                return False, "int-value"
    return True, "match"


def job_base(p: Dict[str, Any]) -> Dict[str, Any]:
    """One base model: export, enumerate all mutants x tolerances x inputs x x64 state, compare verdicts."""
    import jax
    import onnx
    from jax2onnx import to_onnx, allclose
    name = p["base"]
    fn, specs, kw, ac_kw, mk_inputs, params = _base(name)
    d = scratch_dir("c18")
    out = {"cases": 0, "mutants": 0, "mismatch": [], "within": 0, "beyond": 0, "skipped": 0, "samples": []}
    try:
        model = to_onnx(fn, specs, **kw)
        outs = _out_info(model)
        specs_list: List[Tuple] = [("identity",)]
        for oi, (nm, elem, shape) in enumerate(outs):
            n = int(np.prod(shape)) if shape else 1
            for pos in range(min(n, 6 if p["tier"] == "quick" else n)):
                for dk in ("0.1tol", "10tol", "1e3tol", "nan", "+inf", "-inf", "+1", "-1"):
                    specs_list.append(("point", oi, pos, dk))
            for how in ("transpose", "reshape", "unsqueeze", "squeeze", "broadcast"):
                specs_list.append(("shape", oi, how))
            for how in ("int_to_float_frac", "float_to_int", "bool_to_int_plus", "int64_wrap", "complex_swap"):
                specs_list.append(("dtype", oi, how))
        for how in ("drop", "duplicate", "append_const", "swap"):
            specs_list.append(("list", how))
        x64_states = [False, True] if p["tier"] == "thorough" else [False]
        for which in (0, 1):
            xs = mk_inputs(which)
            exp_leaves = [np.asarray(e) for e in jax.tree_util.tree_leaves(jax.device_get(fn(*[jax.numpy.asarray(x) for x in xs], **(params or {}))))]
            for rtol, atol in TOLS:
                for spec in specs_list:
                    mspec = spec
                    if spec[0] == "point":
                        _, oi, pos, dk = spec
                        e = exp_leaves[oi] if oi < len(exp_leaves) else None
                        if e is None:
                            continue
                        if np.iscomplexobj(e):
                            flat = np.stack([e.real, e.imag], -1).reshape(-1)
                        else:
                            flat = e.reshape(-1)
                        if pos >= flat.size:
                            continue
                        # layout flags may permute elements between fn and model: stay a factor 10 away from the
                        # tolerance of EVERY element (min for "within", max for "beyond"), never on the knife edge
                        tol_lo = atol + rtol * float(np.min(np.abs(flat)))
                        tol_hi = atol + rtol * float(np.max(np.abs(flat)))
                        if dk in ("0.1tol", "10tol", "1e3tol"):
                            if tol_hi == 0.0:
                                continue
                            delta = 0.1 * tol_lo if dk == "0.1tol" else (10.0 if dk == "10tol" else 1e3) * tol_hi
                            if delta == 0.0:
                                continue
                        else:
                            delta = {"nan": np.nan, "+inf": np.inf, "-inf": -np.inf, "+1": 1.0, "-1": -1.0}[dk]
                        mspec = ("point", oi, pos, delta)
                    mut = mutate(model, mspec)
                    if mut is None:
                        continue
                    out["mutants"] += 1
                    want, why = _expected_verdict(fn, mut, xs, params, ac_kw, rtol, atol)
                    if want is None:
                        out["skipped"] += 1
                        continue
                    path = os.path.join(d, "m.onnx")
                    onnx.save_model(mut, path)
                    for start in x64_states:
                        jax.config.update("jax_enable_x64", start)
                        try:
                            try:
                                got, msg = allclose(fn, path, xs, params, rtol=rtol, atol=atol, **ac_kw)
                            except Exception as e:  # noqa: BLE001
                                got, msg = None, f"{type(e).__name__}: {str(e)[:100]}"
                            after = bool(jax.config.jax_enable_x64)
                        finally:
                            jax.config.update("jax_enable_x64", False)
                        out["cases"] += 1
                        if want:
                            out["within"] += 1
                        else:
                            out["beyond"] += 1
                        tag = f"{spec[0]}:{':'.join(str(s) for s in spec[1:])}"
                        if after != start:
                            out["mismatch"].append({"mutant": tag, "tol": [rtol, atol], "input": which,
                                                    "what": f"x64 flag {start} before, {after} after allclose"})
                        if got is None:
                            # raising instead of answering is acceptable only for a mismatching model (it is "reported")
                            if want:
                                out["mismatch"].append({"mutant": tag, "tol": [rtol, atol], "input": which,
                                                        "what": f"allclose raised on a matching model: {msg}"})
                        elif bool(got) != want:
                            out["mismatch"].append({"mutant": tag, "tol": [rtol, atol], "input": which,
                                                    "what": f"allclose returned {got} ({msg[:80]}) but the stored model "
                                                            f"{'matches' if want else 'deviates (' + why + ')'} by the independent comparator"})
                        if len(out["samples"]) < 2 and spec[0] != "identity":
                            out["samples"].append({"base": name, "mutant": tag, "tol": [rtol, atol], "expected": want, "allclose": got})
    finally:
        shutil.rmtree(d, ignore_errors=True)
    return out


def main(tier: str) -> int:
    run = Run(PROP, tier)
    run.cov["rule"] = ("every single-point / shape / output-list / dtype-class mutant of 8 stored base models x 3 tolerance "
                       "settings x 2 lattice inputs (x x64 start state in thorough); state = (base, mutant, tolerance, input); "
                       "transition = one real allclose call; non-trivial = mutant that deviates beyond tolerance (expected "
                       "verdict False).")
    run.assumptions += ["ORT outputs of the mutated model are what 'the stored model really produces'",
                        "an exception from allclose counts as 'reported as mismatch' only when the model indeed deviates"]
    if tier == "quick":
        run.cap("quick: first 6 elements of every output; x64 start state off only")
    from checks.c15 import _warm  # noqa: F401
    with Pool(len(BASES), init=("checks.c15", "_warm"), job_timeout=600) as pool:
        for _i, p, r in pool.imap("checks.c18", "job_base", [{"base": b, "tier": tier} for b in BASES]):
            if is_worker_failure(r):
                run.harness_error(f"base {p['base']}: {r.get('_worker')} {r.get('msg', '')[:200]}")
                continue
            run.add("evaluations", r["cases"])
            run.add("transitions", r["cases"])
            run.add("traces_validated_against_impl", r["cases"])
            run.add("states", r["mutants"])
            run.add("distinct_nontrivial", r["beyond"])
            run.add("within_tolerance_cases", r["within"])
            run.add("unloadable_mutants", r["skipped"])
            for s in r["samples"]:
                run.sample(s)
            groups: Dict[str, List[Dict[str, Any]]] = {}
            for m in r["mismatch"]:
                kind = m["mutant"].split(":")[0] + (":" + m["mutant"].split(":")[2] if m["mutant"].startswith(("shape", "dtype")) else
                                                    ":" + m["mutant"].split(":")[1] if m["mutant"].startswith("list") else "")
                groups.setdefault(kind, []).append(m)
            for kind, ms in groups.items():
                run.violation(f"{p['base']}|{kind}", f"{len(ms)} case(s), e.g. {ms[0]['mutant']} tol={ms[0]['tol']}: {ms[0]['what']}",
                              {"base": p["base"], "tier": tier}, cases=sorted({m['mutant'] + '@' + str(m['tol']) for m in ms}))
    run._nontrivial = set()
    return run.finish()


def replay(rep: Dict[str, Any]) -> Dict[str, Any]:
    from checks.c15 import _warm
    _warm()
    r = job_base({"base": rep["base"], "tier": rep.get("tier", "quick")})
    return {"violation": bool(r["mismatch"]), "observed": r["mismatch"][:5]}
