"""C16 - failure is loud: never a silently different or partial model.  (fault enumeration)

(a) Unsupported constructs {unregistered primitive, 3-way switch, reverse scan, traced fori bounds, traced
    while-in-fori bounds, dimension expression without origin, dynamic-size boolean mask} x placements {top level,
    cond branch, while body, fori body, scan body, function body, depth-2 nestings}: to_onnx must raise (and leave no
    file behind in file mode) -- or, if it does return a model, that model must equal eager JAX on every steering
    input (a supported variant is fine; an omitted or approximated part is not).
(b) Crash points of the optimizer: the pass pipeline is aborted at EVERY pass index k, on the top graph and inside
    every function body, for programs on which the optimizer changes the graph.  Default policy: the returned
    model is valid and computes what eager JAX computes; strict policy re-raises the injected exception.
"""
from __future__ import annotations

import dataclasses
import itertools
import os
import shutil
from typing import Any, Callable, Dict, List, Optional, Tuple

import numpy as np

from mc.pool import Pool, is_worker_failure
from mc.report import Run
from checks.c01 import scratch_dir

PROP = "C16"


class InjectedAbort(RuntimeError):
    pass


CONSTRUCTS = ["unregistered_prim", "switch3", "switch3_const_index", "reverse_scan", "reverse_scan_no_xs", "reverse_scan_carry_only", "fori_traced_bounds",
              "while_traced_trip_in_fori", "dim_no_origin", "dynamic_mask", "argsort_unstable_variant"]
PLACEMENTS = ["top", "cond", "while", "fori", "scan", "fn", "cond/while", "fori/cond", "fn/scan", "scan/fn"]


def _construct(kind: str) -> Tuple[Callable, bool]:
    """-> (u(x, k) using the construct on a (2,3) float array and an int32 scalar, uses_k)"""
    import jax
    import jax.numpy as jnp
    from jax import lax
    if kind == "unregistered_prim":
        from jax._src import core as jcore
        p = jcore.Primitive("verif_c16_unregistered")
        p.def_impl(lambda y: y * 3.0 + 1.0)
        p.def_abstract_eval(lambda y: y)
        return (lambda x, k: p.bind(x) + 0.5), False
    if kind == "switch3":
        return (lambda x, k: lax.switch(k, [lambda y: y + 1.0, lambda y: y * 2.0, lambda y: y - 4.0], x)), True
    if kind == "switch3_const_index":
        return (lambda x, k: lax.switch(2, [lambda y: y + 1.0, lambda y: y * 2.0, lambda y: y - 4.0], x)), False
    if kind == "reverse_scan":
        def u(x, k):
            def step(c, row):
                n = c * 2.0 + row
                return n, n
            carry, ys = lax.scan(step, jnp.zeros((3,), x.dtype), x, reverse=True)
            return ys + carry
        return u, False
    if kind == "reverse_scan_no_xs":
        def u(x, k):
            def step(c, _):
                n = c * 2.0 + 1.0
                return n, jnp.sum(n)
            carry, ys = lax.scan(step, x, None, length=3, reverse=True)
            return carry + ys[0] * 0.5 + ys[2] * 0.25
        return u, False
    if kind == "reverse_scan_carry_only":
        return (lambda x, k: lax.scan(lambda c, _: (c * 2.0 + 1.0, None), x, None, length=3, reverse=True)[0]), False
    if kind == "fori_traced_bounds":
        return (lambda x, k: lax.fori_loop(0, k, lambda i, c: c * 2.0 + 1.0, x)), True
    if kind == "while_traced_trip_in_fori":
        return (lambda x, k: lax.fori_loop(1, k + 1, lambda i, c: c + i.astype(c.dtype), x)), True
    if kind == "dim_no_origin":
        return (lambda x, k: jnp.reshape(x, (x.shape[0] * x.shape[1],)) * 2.0), False
    if kind == "dynamic_mask":
        return (lambda x, k: jnp.sum(jnp.where(x > 0.5, x, 0.0)[x.shape[0] - 1:]) + x), False
    if kind == "argsort_unstable_variant":
        return (lambda x, k: jnp.argsort(x, axis=-1, descending=True).astype(x.dtype) + x), False
    raise ValueError(kind)


def _place(u: Callable, placement: str) -> Callable:
    import jax.numpy as jnp
    from jax import lax
    from mc import grammars

    def wrap(f: Callable, where: str) -> Callable:
        if where == "cond":
            return lambda x, k: lax.cond(jnp.sum(x) > 0.0, lambda y: f(y, k), lambda y: y - 1.0, x)
        if where == "while":
            return lambda x, k: lax.while_loop(lambda c: c[0] < 2, lambda c: (c[0] + 1, f(c[1], k)), (jnp.int32(0), x))[1]
        if where == "fori":
            return lambda x, k: lax.fori_loop(0, 2, lambda i, c: f(c, k), x)
        if where == "scan":
            def g(x, k):
                carry, ys = lax.scan(lambda c, _: (f(c, k), jnp.sum(c)), x, None, length=2)
                return carry + jnp.sum(ys)
            return g
        if where == "fn":
            holder = {}

            def g(x, k):
                if "t" not in holder:
                    holder["t"] = grammars._fresh_fn(lambda y: f(y, holder["k"]), False)
                holder["k"] = k
                return holder["t"](x)
            return g
        raise ValueError(where)

    f = u
    if placement == "top":
        return f
    for w in reversed(placement.split("/")):
        f = wrap(f, w)
    return f


def job_construct(p: Dict[str, Any]) -> Dict[str, Any]:
    import jax
    import jax.numpy as jnp
    from jax2onnx import to_onnx
    from mc import gspace as G
    kind, placement, symbolic = p["construct"], p["placement"], p["symbolic"]
    u, uses_k = _construct(kind)
    f = _place(u, placement)
    if kind == "dim_no_origin" and not symbolic:
        return {"status": "n/a"}
    xspec = ("B", 3) if symbolic else (2, 3)
    if uses_k:
        fn = lambda x, k: f(x, k)  # noqa: E731
        specs = [xspec, jax.ShapeDtypeStruct((), jnp.int32)]
    else:
        fn = lambda x: f(x, 0)  # noqa: E731
        specs = [xspec]
    # eager reference first (plain lax/jnp programs; no jit inside)
    feeds = []
    for sign in (1.0, -1.0):
        x = ((np.arange(6, dtype=np.float32).reshape(2, 3) * 0.5 - 0.5) * sign).astype(np.float32)
        for k in ((-1, 0, 1, 2, 3) if uses_k else (0,)):
            args = [x] + ([np.int32(k)] if uses_k else [])
            try:
                exp = np.asarray(fn(*[jnp.asarray(a) for a in args]))
            except Exception:
                exp = None
            feeds.append((args, exp))
    d = scratch_dir("c16")
    path = os.path.join(d, "never.onnx")
    try:
        try:
            ret = to_onnx(fn, specs, return_mode="file", output_path=path)
        except Exception as e:  # noqa: BLE001
            left = os.path.exists(path) or os.path.exists(path + ".data")
            return {"status": "raised", "type": type(e).__name__, "msg": str(e)[:160], "file_left_behind": left}
        import onnx
        model = onnx.load(ret)
        names = [i.name for i in model.graph.input]
        bad = []
        for args, exp in feeds:
            if exp is None:
                continue
            st, out = G.ort_run(model, dict(zip(names, args)))
            if st != "ok":
                bad.append(f"k={args[1] if uses_k else '-'}: model {st}: {str(out)[:100]}")
            elif not (np.asarray(out[0]).shape == exp.shape and np.array_equal(np.asarray(out[0]), exp)):
                bad.append(f"x[0,0]={float(args[0][0, 0])}, k={int(args[1]) if uses_k else '-'}: model {np.asarray(out[0]).reshape(-1)[:4]} vs JAX {exp.reshape(-1)[:4]}")
        return {"status": "returned", "bad": bad[:4], "compared": sum(1 for _a, e in feeds if e is not None)}
    finally:
        shutil.rmtree(d, ignore_errors=True)


# --------------------------------------------------------------------------
# (b) optimizer abort points
# --------------------------------------------------------------------------
ABORT_PROGRAMS = ["nchw_residual", "reshape_cast_chain", "fn_with_transposes", "scan_cond_transposes", "nnx_conv_dropout",
                  "two_fns_casts"]


def _abort_program(name: str):
    import jax
    import jax.numpy as jnp
    from jax import lax
    from mc import grammars
    if name == "nchw_residual":
        def f(a, b):
            ta, tb = jnp.transpose(a, (0, 3, 1, 2)), jnp.transpose(b, (0, 3, 1, 2))
            s = jax.nn.relu(ta + tb)
            return jnp.transpose(s + ta, (0, 2, 3, 1)) * 2.0
        return f, [(1, 2, 2, 3), (1, 2, 2, 3)], {"inputs_as_nchw": [0], "outputs_as_nchw": [0]}
    if name == "reshape_cast_chain":
        def f(x):
            y = jnp.reshape(jnp.tanh(jnp.reshape(x, (-1,))), x.shape)
            z = y.astype(jnp.int32).astype(jnp.float32) + y
            return jnp.transpose(jnp.transpose(z, (1, 0)) * 2.0, (1, 0))
        return f, [(2, 3)], {}
    if name == "fn_with_transposes":
        t = grammars._fresh_fn(lambda y: jnp.transpose(jax.nn.relu(jnp.transpose(y, (1, 0)) + 1.0), (1, 0)) * 2.0, False)
        return (lambda x: t(x) + t(x * 2.0)), [(2, 3)], {}
    if name == "scan_cond_transposes":
        def f(x):
            def step(c, _):
                n = lax.cond(jnp.sum(c) > 0, lambda v: jnp.transpose(jnp.transpose(v, (1, 0)) * 2.0, (1, 0)), lambda v: v + 1.0, c)
                return n, jnp.sum(n)
            c, ys = lax.scan(step, x, None, length=2)
            return c + jnp.sum(ys)
        return f, [(2, 3)], {}
    if name == "nnx_conv_dropout":
        from flax import nnx
        conv = nnx.Conv(3, 2, kernel_size=(1, 1), rngs=nnx.Rngs(0))
        drop = nnx.Dropout(0.5, rngs=nnx.Rngs(1))
        return (lambda x: drop(nnx.relu(conv(x)), deterministic=True) + 1.0), [(1, 2, 2, 3)], {"inputs_as_nchw": [0]}
    if name == "two_fns_casts":
        a = grammars._fresh_fn(lambda y: (y * 2.0).astype(jnp.float32).astype(jnp.float32) + 1.0, False)
        b = grammars._fresh_fn(lambda y: jnp.reshape(jnp.reshape(y, (-1,)) * 0.5, (2, 3)), True)
        return (lambda x: a(b(x)) + b(a(x))), [(2, 3)], {}
    raise ValueError(name)


def job_abort(p: Dict[str, Any]) -> Dict[str, Any]:
    """All abort points (pass k x scope) for one program, both policies."""
    import jax.numpy as jnp
    import jax2onnx.converter.ir_optimizations as opt
    from jax2onnx import to_onnx
    from mc import gspace as G, walker
    name = p["program"]
    passes = getattr(opt, "_OPTIMIZER_PASSES", None)
    if not isinstance(passes, tuple) or not passes or not dataclasses.is_dataclass(passes[0]):
        return {"status": "seam_missing"}
    fn, specs, kw = _abort_program(name)
    xs = [((np.arange(int(np.prod(s)), dtype=np.float32).reshape(s) * 0.5 - 1.0) * sg).astype(np.float32)
          for s in specs for sg in (1.0,)]
    xs2 = [(-a + 0.25).astype(np.float32) for a in xs]
    exp = []
    for feed in (xs, xs2):
        e = np.asarray(fn(*[jnp.asarray(a) for a in feed]))
        exp.append(e)
    nchw_in = set(kw.get("inputs_as_nchw") or ())
    nchw_out = set(kw.get("outputs_as_nchw") or ())

    def evaluate(model) -> Optional[str]:
        rep = walker.structural_report(model)
        if rep["problems"]:
            return "invalid model: " + rep["problems"][0][:150]
        if rep["ort"].startswith("load_error"):
            return rep["ort"][:200]
        names = [i.name for i in model.graph.input]
        for feed, e in zip((xs, xs2), exp):
            f2 = [np.transpose(a, (0, 3, 1, 2)) if (k in nchw_in and a.ndim == 4) else a for k, a in enumerate(feed)]
            st, out = G.ort_run(model, dict(zip(names, f2)))
            if st != "ok":
                return f"model {st}: {str(out)[:120]}"
            o = np.asarray(out[0])
            if 0 in nchw_out and o.ndim == 4:
                o = np.transpose(o, (0, 2, 3, 1))
            if o.shape != e.shape or not np.allclose(o, e, rtol=1e-5, atol=1e-6):
                return f"differs from eager JAX: {o.reshape(-1)[:4]} vs {e.reshape(-1)[:4]}"
        return None

    out: Dict[str, Any] = {"status": "ok", "points": [], "n_passes": len(passes)}
    base = to_onnx(fn, specs, **kw)
    out["baseline_problem"] = evaluate(base)
    out["functions"] = len(base.functions)
    base_digest = G.model_digest(base)

    def run_with_abort(k: int, scope: str, strict: bool):
        calls = {"n": 0}
        target = passes[k]

        def boom_model(model):
            raise InjectedAbort(f"abort at pass {k} ({target.name}) on {scope}")

        def boom_graph(graph):
            raise InjectedAbort(f"abort at pass {k} ({target.name}) on {scope}")

        if scope == "top":
            newp = dataclasses.replace(target, model_runner=boom_model if target.model_runner is not None else None,
                                       graph_runner=boom_graph if target.graph_runner is not None else
                                       (None if target.model_runner is not None else boom_graph))
        else:
            j = int(scope.split(":")[1])
            real = target.function_graph_runner

            def fn_runner(graph):
                calls["n"] += 1
                if calls["n"] - 1 == j:
                    raise InjectedAbort(f"abort at pass {k} ({target.name}) on function body {j}")
                if real is not None:
                    return real(graph)
            newp = dataclasses.replace(target, function_graph_runner=fn_runner)
        opt._OPTIMIZER_PASSES = passes[:k] + (newp,) + passes[k + 1:]
        env_old = os.environ.get("JAX2ONNX_STRICT_OPTIMIZER_FAILURES")
        if strict:
            os.environ["JAX2ONNX_STRICT_OPTIMIZER_FAILURES"] = "1"
        else:
            os.environ.pop("JAX2ONNX_STRICT_OPTIMIZER_FAILURES", None)
        try:
            try:
                m = to_onnx(fn, specs, **kw)
                return "returned", m
            except InjectedAbort as e:
                return "reraised", str(e)
            except Exception as e:  # noqa: BLE001
                return "other_exception", f"{type(e).__name__}: {str(e)[:150]}"
        finally:
            opt._OPTIMIZER_PASSES = passes
            if env_old is None:
                os.environ.pop("JAX2ONNX_STRICT_OPTIMIZER_FAILURES", None)
            else:
                os.environ["JAX2ONNX_STRICT_OPTIMIZER_FAILURES"] = env_old

    scopes = ["top"] + [f"fn:{j}" for j in range(len(base.functions))]
    for k in range(len(passes)):
        for scope in scopes:
            if scope != "top" and passes[k].function_graph_runner is None:
                continue
            rec = {"k": k, "pass": passes[k].name, "scope": scope}
            st, m = run_with_abort(k, scope, strict=False)
            rec["default"] = st
            if st == "returned":
                rec["fired"] = G.model_digest(m) != base_digest
                pr = evaluate(m)
                if pr:
                    rec["problem"] = pr
            else:
                rec["problem"] = f"default policy did not return a model: {st}: {str(m)[:150]}"
            st2, m2 = run_with_abort(k, scope, strict=True)
            rec["strict"] = st2
            if st2 != "reraised":
                # a pass that is never reached for this scope cannot re-raise (e.g. function index beyond the bodies visited)
                rec["strict_problem"] = f"strict policy: {st2}" + ("" if st2 == "returned" else f" {str(m2)[:100]}")
            out["points"].append(rec)
    return out


def _warm() -> None:
    import logging
    logging.disable(logging.WARNING)
    import jax  # noqa: F401
    import jax2onnx  # noqa: F401
    import onnxruntime  # noqa: F401


def main(tier: str) -> int:
    run = Run(PROP, tier, level="fault_enumeration")
    run.cov["rule"] = ("(a) every unsupported construct x placement x {concrete, symbolic batch}; (b) every optimizer abort "
                       "point (pass index x top graph / each function body) x both failure policies for 6 optimizer-heavy "
                       "programs. non-trivial = (a) case in which to_onnx raised or the returned model was executed against "
                       "JAX; (b) abort point after which the returned model differs from the fully optimised one (the "
                       "fault really truncated the pipeline).")
    run.assumptions += ["eager JAX evaluated before the conversion in the same worker is the reference for these plain "
                        "lax/jnp programs", "seam ir_optimizations._OPTIMIZER_PASSES (tuple of dataclass entries); degrades if absent"]
    with Pool(init=("checks.c16", "_warm"), job_timeout=400) as pool:
        cases = [{"construct": c, "placement": pl, "symbolic": s} for c in CONSTRUCTS for pl in PLACEMENTS for s in (False, True)]
        outcomes: Dict[str, int] = {}
        for _i, p, r in pool.imap("checks.c16", "job_construct", cases):
            if is_worker_failure(r):
                run.harness_error(f"construct {p}: {r.get('_worker')} {r.get('msg', '')[:150]}")
                continue
            if r["status"] == "n/a":
                continue
            run.add("evaluations")
            ident = f"{p['construct']}@{p['placement']}|{'sym' if p['symbolic'] else 'concrete'}"
            outcomes[r["status"] + ":" + r.get("type", "")] = outcomes.get(r["status"] + ":" + r.get("type", ""), 0) + 1
            if r["status"] == "raised":
                run.nontrivial(ident)
                if r.get("file_left_behind"):
                    run.violation(f"a|{ident}|file", "to_onnx raised but left a model file behind", {"kind": "construct", "case": p})
            else:
                if r["compared"]:
                    run.nontrivial(ident)
                if p["construct"] == "unregistered_prim":
                    run.violation(f"a|{ident}|returned", "a model was returned for a program using a primitive without lowering",
                                  {"kind": "construct", "case": p})
                elif r["bad"]:
                    run.violation(f"a|{ident}|different", f"exported without error but differs from JAX: {r['bad'][0]}",
                                  {"kind": "construct", "case": p})
            if len(run.cov["samples"]) < 4:
                run.sample({"case": ident, "outcome": r["status"], "exception": r.get("type")})
        run.cov["construct_outcomes"] = outcomes
        fired = 0
        for _i, p, r in pool.imap("checks.c16", "job_abort", [{"program": q} for q in ABORT_PROGRAMS]):
            if is_worker_failure(r):
                run.harness_error(f"abort {p}: {r.get('_worker')} {r.get('msg', '')[:200]}")
                continue
            if r["status"] == "seam_missing":
                run.cap("optimizer pass table seam not available: abort points not explored")
                continue
            if r.get("baseline_problem"):
                run.harness_error(f"abort program {p['program']} is not usable as a base: {r['baseline_problem']}")
                continue
            grouped: Dict[str, List[Dict[str, Any]]] = {}
            for rec in r["points"]:
                run.add("evaluations", 2)
                ident = f"{p['program']}|pass{rec['k']}:{rec['pass']}|{rec['scope']}"
                if rec.get("fired"):
                    fired += 1
                    run.nontrivial(ident)
                scope_cls = "top" if rec["scope"] == "top" else "function-body"
                if rec.get("problem"):
                    cls = ("stale-shape-annotation" if "Inferred shape and existing shape" in rec["problem"] else
                           rec["problem"].split(":")[0][:40])
                    grouped.setdefault(f"b|{p['program']}|{scope_cls}|default|{cls}", []).append(rec)
                if rec.get("strict_problem") and rec.get("fired", True):
                    grouped.setdefault(f"b|{p['program']}|{scope_cls}|strict", []).append(rec)
            for key, recs in grouped.items():
                run.violation(key, f"abort at {[(x['k'], x['pass']) for x in recs][:6]}: " + (recs[0].get("problem") or recs[0].get("strict_problem")),
                              {"kind": "abort", "case": p, "point": recs[0]}, cases=sorted({f"pass{x['k']}" for x in recs}))
            run.sample({"program": p["program"], "abort_points": len(r["points"]), "functions": r["functions"]})
        run.cov["abort_points_that_changed_the_model"] = fired
    return run.finish()


def replay(rep: Dict[str, Any]) -> Dict[str, Any]:
    _warm()
    if rep["kind"] == "construct":
        r = job_construct(rep["case"])
        return {"violation": r.get("status") == "returned" and (bool(r.get("bad")) or rep["case"]["construct"] == "unregistered_prim"), "observed": r}
    r = job_abort(rep["case"])
    pts = [x for x in r.get("points", []) if x["k"] == rep["point"]["k"] and x["scope"] == rep["point"]["scope"]]
    return {"violation": any(x.get("problem") or x.get("strict_problem") for x in pts), "observed": pts}
