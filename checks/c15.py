"""C15 - all return and file modes deliver the same model.

Enumerated on the real to_onnx: modes {proto, ir->proto, file/standard, file/web} x parameter sizes on both
sides of the 1 MiB spill threshold {0.5 MiB, 1 MiB-4 B, 1 MiB, 1 MiB+4 B, 2.5 MiB} x all histories of length <= 3
(84) of exports to ONE path over {standard-large, standard-small, web-large, web-small}; state = digests of
<path> and <path>.data.  Oracle: the model reloaded from disk (with its sidecar) has the same graph and
bit-identical initializer bytes as the proto-mode export and the same ORT outputs; web => a single file and no
sidecar left behind; deleting or corrupting a sidecar the
current model does not reference changes nothing.
"""
from __future__ import annotations

import hashlib
import itertools
import os
import shutil
from typing import Any, Dict, List, Optional, Tuple

import numpy as np

from mc.pool import Pool, is_worker_failure
from mc.report import Run
from checks.c01 import scratch_dir

PROP = "C15"
MIB = 1_048_576
SIZES = {"0.5MiB": MIB // 2, "1MiB-4": MIB - 4, "1MiB": MIB, "1MiB+4": MIB + 4, "2.5MiB": (5 * MIB) // 2}
EVENTS = {"std-large": ("standard", "2.5MiB"), "std-small": ("standard", "0.5MiB"),
          "web-large": ("web", "2.5MiB"), "web-small": ("web", "0.5MiB")}


def _program(nbytes: int, where: str = "top"):
    import jax.numpy as jnp
    from jax import lax
    n = nbytes // 4
    w = ((np.arange(n, dtype=np.int64) * 2654435761) % 1000003).astype(np.float32) / 7.0  # deterministic, non-trivial bytes
    small = np.arange(5, dtype=np.int32)

    if where == "loop":
        # the large parameter lives ONLY inside a control-flow body
        def fn(x):
            y = lax.fori_loop(0, 2, lambda i, c: c * jnp.asarray(w) * 0.001 + 1.0, x)
            return y, jnp.sum(x[:5] * jnp.asarray(small))
        return fn, [(n,)], w

    def fn(x):
        return x * jnp.asarray(w) + 1.0, jnp.sum(x[:5] * jnp.asarray(small))
    return fn, [(n,)], w


def _canon(model) -> Tuple[str, Dict[str, str]]:
    """(digest of the graph without tensor payloads, {tensor name/path: digest of its bytes}) over ALL tensors of the
    model: initializers and tensor attributes, nested graphs included."""
    import onnx
    from onnx import numpy_helper
    payloads: Dict[str, str] = {}
    m = onnx.ModelProto()
    m.CopyFrom(model)

    def strip(t, where: str) -> None:
        arr = numpy_helper.to_array(t)
        payloads[where] = hashlib.sha256(arr.tobytes() + str(arr.dtype).encode() + str(arr.shape).encode()).hexdigest()[:16]
        for f in ("raw_data", "external_data", "data_location", "float_data", "int32_data", "int64_data", "double_data",
                  "uint64_data", "string_data"):
            t.ClearField(f)

    def walk(g, path: str) -> None:
        for t in g.initializer:
            strip(t, f"{path}:{t.name}")
        for k, nd in enumerate(g.node):
            for a in nd.attribute:
                if a.type == onnx.AttributeProto.TENSOR:
                    strip(a.t, f"{path}/node{k}.{a.name}")
                elif a.type == onnx.AttributeProto.GRAPH:
                    walk(a.g, f"{path}/node{k}.{a.name}")
                elif a.type == onnx.AttributeProto.GRAPHS:
                    for j, sg in enumerate(a.graphs):
                        walk(sg, f"{path}/node{k}.{a.name}[{j}]")
    walk(m.graph, "graph")
    m.ClearField("producer_name")
    m.ClearField("producer_version")
    return hashlib.sha256(m.SerializeToString(deterministic=True)).hexdigest()[:16], payloads


def _run(model_or_path, x) -> List[np.ndarray]:
    import onnxruntime as ort
    from mc import gspace as G
    src = model_or_path if isinstance(model_or_path, str) else model_or_path.SerializeToString()
    sess = ort.InferenceSession(src, G._sess_opts(), providers=["CPUExecutionProvider"])
    return sess.run(None, {sess.get_inputs()[0].name: x})


def _file_state(path: str) -> Dict[str, Optional[str]]:
    out = {}
    for p in (path, path + ".data"):
        if os.path.exists(p):
            with open(p, "rb") as f:
                out[os.path.basename(p)[-9:]] = hashlib.sha256(f.read()).hexdigest()[:12] + f":{os.path.getsize(p)}"
        else:
            out[os.path.basename(p)[-9:]] = None
    return out


def _compare_loaded(path: str, ref_model, x, ref_out, expect_mode: str, nbytes: int) -> List[str]:
    import onnx
    problems: List[str] = []
    raw = onnx.load(path, load_external_data=False)
    def _all_tensors(g):
        for t in g.initializer:
            yield t
        for nd in g.node:
            for a in nd.attribute:
                if a.type == onnx.AttributeProto.TENSOR:
                    yield a.t
                elif a.type == onnx.AttributeProto.GRAPH:
                    yield from _all_tensors(a.g)
                elif a.type == onnx.AttributeProto.GRAPHS:
                    for sg in a.graphs:
                        yield from _all_tensors(sg)
    ext = [t.name for t in _all_tensors(raw.graph) if t.data_location == onnx.TensorProto.EXTERNAL]
    big = [t.name for t in ref_model.graph.initializer if len(t.raw_data) >= MIB]
    if expect_mode == "web":
        if ext:
            problems.append(f"web export references external data for {ext}")
        if os.path.exists(path + ".data"):
            problems.append("web export left a sidecar file next to the model")
    else:
        # (which tensors spill is the onnx library's size_threshold policy, not part of the property)
        if ext and not os.path.exists(path + ".data"):
            problems.append("standard export references a sidecar that does not exist")
    try:
        loaded = onnx.load(path)
    except Exception as e:  # noqa: BLE001
        return problems + [f"reload failed: {type(e).__name__}: {str(e)[:150]}"]
    g0, i0 = _canon(ref_model)
    g1, i1 = _canon(loaded)
    if g0 != g1:
        problems.append("reloaded graph differs from the proto-mode export")
    if i0 != i1:
        diff = [k for k in set(i0) | set(i1) if i0.get(k) != i1.get(k)]
        problems.append(f"initializer bytes differ after reload: {diff[:3]}")
    try:
        out = _run(path, x)
        for a, b in zip(ref_out, out):
            if not (a.shape == b.shape and a.dtype == b.dtype and np.array_equal(a, b)):
                problems.append("ORT outputs of the reloaded model differ from the proto-mode export")
                break
    except Exception as e:  # noqa: BLE001
        problems.append(f"ORT cannot run the file: {str(e)[:150]}")
    # a sidecar the current model does not reference must be irrelevant
    if not ext and os.path.exists(path + ".data"):
        try:
            with open(path + ".data", "r+b") as f:
                f.write(b"\xff" * 64)
            out2 = _run(path, x)
            if not all(np.array_equal(a, b) for a, b in zip(ref_out, out2)):
                problems.append("corrupting an unreferenced stale sidecar changed the outputs")
        except Exception as e:  # noqa: BLE001
            problems.append(f"stale sidecar interferes: {str(e)[:120]}")
    return problems


_REF: Dict[str, Any] = {}


def _reference(size_name: str, where: str = "top"):
    from jax2onnx import to_onnx
    key = size_name + "|" + where
    if key not in _REF:
        fn, specs, w = _program(SIZES[size_name], where)
        m = to_onnx(fn, specs, return_mode="proto")
        x = (np.arange(specs[0][0], dtype=np.float32) % 17) - 8.0
        _REF[key] = (fn, specs, m, x, _run(m, x))
    return _REF[key]


def job_modes(p: Dict[str, Any]) -> Dict[str, Any]:
    """All four modes for one parameter size in a clean directory."""
    import onnx_ir as ir
    from jax2onnx import to_onnx
    size_name = p["size"]
    where = p.get("where", "top")
    fn, specs, ref, x, ref_out = _reference(size_name, where)
    d = scratch_dir("c15m")
    problems: List[str] = []
    states = []
    try:
        irm = to_onnx(fn, specs, return_mode="ir")
        proto2 = ir.to_proto(irm)
        if _canon(proto2) != _canon(ref):
            problems.append("ir mode (converted to protobuf) differs from proto mode")
        if ref.SerializeToString(deterministic=True) != to_onnx(fn, specs, return_mode="proto").SerializeToString(deterministic=True):
            problems.append("proto mode is not reproducible")
        # every accepted spelling of a mode must behave like the canonical one
        for spelled, mode in (("standard", "standard"), ("web", "web"), ("Web", "web"), (" WEB ", "web"), ("STANDARD", "standard")):
            path = os.path.join(d, f"m_{mode}_{len(spelled)}{spelled.strip()[:1]}.onnx")
            ret = to_onnx(fn, specs, return_mode="file" if spelled != "Web" else "FILE", output_path=path, export_mode=spelled)
            if ret != path:
                problems.append(f"file mode returned {ret!r} instead of the requested path")
            problems += [f"{mode} (spelled {spelled!r}): {q}" for q in _compare_loaded(path, ref, x, ref_out, mode, SIZES[size_name])]
            states.append(str(_file_state(path)))
    except Exception as e:  # noqa: BLE001
        problems.append(f"export raised {type(e).__name__}: {str(e)[:200]}")
    finally:
        shutil.rmtree(d, ignore_errors=True)
    return {"problems": problems, "states": states}


def job_history(p: Dict[str, Any]) -> Dict[str, Any]:
    """A sequence of exports to ONE path; after every export the file must deliver the model of that export."""
    from jax2onnx import to_onnx
    d = scratch_dir("c15h")
    path = os.path.join(d, "model.onnx")
    steps = []
    try:
        for k, ev in enumerate(p["history"]):
            mode, size_name = EVENTS[ev]
            fn, specs, ref, x, ref_out = _reference(size_name)
            try:
                to_onnx(fn, specs, return_mode="file", output_path=path, export_mode=mode)
                probs = _compare_loaded(path, ref, x, ref_out, mode, SIZES[size_name])
            except Exception as e:  # noqa: BLE001
                probs = [f"export raised {type(e).__name__}: {str(e)[:200]}"]
            steps.append({"event": ev, "problems": probs, "state": str(_file_state(path))})
    finally:
        shutil.rmtree(d, ignore_errors=True)
    return {"steps": steps}


def _warm() -> None:
    import logging
    logging.disable(logging.WARNING)
    import jax  # noqa: F401
    import jax2onnx  # noqa: F401
    import onnxruntime  # noqa: F401


def main(tier: str) -> int:
    run = Run(PROP, tier)
    run.cov["rule"] = ("4 modes x 5 parameter sizes around the 1 MiB threshold in clean directories + all export histories of "
                       "length <= 3 over {std-large, std-small, web-large, web-small} to one path; state = digests/sizes of the "
                       "model file and its sidecar; transition = one to_onnx(return_mode='file') call; non-trivial = history "
                       "in which the mode or the size class changes between two exports.")
    run.assumptions += ["onnx.load / ORT resolve external data relative to the model path as users do"]
    depth = 3
    hist = [list(h) for n in range(1, depth + 1) for h in itertools.product(EVENTS, repeat=n)]
    if tier == "thorough":
        hist += [list(h) for h in itertools.product(EVENTS, repeat=4)]
    with Pool(init=("checks.c15", "_warm"), job_timeout=400) as pool:
        for _i, p, r in pool.imap("checks.c15", "job_modes", [{"size": s, "where": w} for s in SIZES for w in ("top", "loop")]):
            run.add("evaluations")
            if is_worker_failure(r):
                run.harness_error(f"modes {p}: {r.get('_worker')} {r.get('msg', '')[:150]}")
                continue
            run.add("transitions", 5)
            run.add("traces_validated_against_impl", 5)
            for s in r["states"]:
                run.state(p["size"] + "|" + p["where"] + "|" + s)
            run.nontrivial("modes|" + p["size"] + "|" + p["where"])
            for q in r["problems"]:
                run.violation(f"modes|{p['size']}|{p['where']}|{q.split(':')[0][:60]}", q, {"kind": "modes", "case": p})
            if len(run.cov["samples"]) < 4:
                run.sample({"size": p["size"], "parameter_lives_in": p["where"], "file_states": r["states"]})
        for _i, p, r in pool.imap("checks.c15", "job_history", [{"history": h} for h in hist]):
            run.add("evaluations")
            if is_worker_failure(r):
                run.harness_error(f"history {p}: {r.get('_worker')} {r.get('msg', '')[:150]}")
                continue
            run.add("traces_validated_against_impl")
            prefix = []
            for st in r["steps"]:
                run.add("transitions")
                prefix.append(st["event"])
                run.state("/".join(prefix[-1:]) + "|" + st["state"])
                if len(prefix) > 1 and prefix[-1] != prefix[-2]:
                    run.nontrivial("/".join(prefix))
                for q in st["problems"]:
                    run.violation(f"history|{'/'.join(prefix)}|{q[:50]}", q, {"kind": "history", "case": {"history": list(prefix)}})
            if len(run.cov["samples"]) < 8 and len(p["history"]) == 3:
                run.sample({"history": p["history"], "file_states": [s["state"] for s in r["steps"]]})
    run.cov["histories"] = len(hist)
    return run.finish()


def replay(rep: Dict[str, Any]) -> Dict[str, Any]:
    _warm()
    r = job_modes(rep["case"]) if rep["kind"] == "modes" else job_history(rep["case"])
    bad = bool(r.get("problems")) or any(s["problems"] for s in r.get("steps", []))
    return {"violation": bad, "observed": r}
